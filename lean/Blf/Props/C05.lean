import Blf.FileRoundTrip
/-!
# C05 — File header statistics are exact and agree with the reader's running counters

On the file model (`FileSeq.writeFile` / `readFile`, tied to the implementation by the `file` correspondence runs), for every
object list, level, container size and restore-point setting:

* `C05_file_size`: the stored `fileSize` is the length of the file;
* `C05_uncompressed_size`: the stored `uncompressedFileSize` is statistics size + Σ over all containers (32 + payload);
* `C05_restore_point_offset`: with restore points, the stored offset is where the trailing container begins;
* `C05_reader_counters`: a reader of that file ends with its running uncompressed-size counter equal to the stored value, its
  object counter equal to the number of objects written (restore-point objects excluded), and hands back every header field
  as stored — the caller-supplied ones verbatim.
-/
namespace Blf.Props
open Blf Blf.FileSeq Blf.FileRound Blf.ContainerRound Blf.FileRoundTrip

theorem usizeOf_append (a b : List Bytes) : usizeOf (a ++ b) = usizeOf a + usizeOf b := by
  induction a with
  | nil => simp [usizeOf]
  | cons x a ih => simp only [List.cons_append, usizeOf, ih]; omega

theorem usizeOf_sum (a : List Bytes) : (a.map fun c => 32 + c.length).sum = usizeOf a := by
  induction a with
  | nil => rfl
  | cons x a ih => simp only [List.map_cons, List.sum_cons, usizeOf, ih]

theorem num_setNum3 (h : Obj) (a b c : Nat) (g : Nat) (h7 : g ≠ 7) (h8 : g ≠ 8) (h9 : g ≠ 9) :
    (((h.setNum 7 a).setNum 8 b).setNum 9 c).num g = h.num g := by
  simp [Obj.setNum, h7, h8, h9]

/-- the stored uncompressed size: statistics size plus, over all containers, header plus payload -/
theorem C05_uncompressed_size (Z : Zlib) (cap : Nat) (cfg : WCfg) (hdr : Obj) (objs : List (Codec × Obj)) :
    (storedHeader Z cap cfg hdr objs).num 8 = hdr.num 1 + usizeOf (payloads cap cfg objs) := by
  unfold storedHeader payloads
  simp only [Obj.setNum, usizeOf_append, usizeOf_sum]
  simp
  split <;> simp [usizeOf] <;> omega

/-- the stored object count: the objects written, restore points excluded -/
theorem C05_object_count (Z : Zlib) (cap : Nat) (cfg : WCfg) (hdr : Obj) (objs : List (Codec × Obj)) :
    (storedHeader Z cap cfg hdr objs).num 9 = (objs.filter fun p => p.2.num 4 ≠ 115).length := by
  unfold storedHeader; simp [Obj.setNum]

/-- the stored file size is the size of the file -/
theorem C05_file_size (Z : Zlib) (cap : Nat) (cfg : WCfg) (hdr : Obj) (objs : List (Codec × Obj))
    (hH : ItemsWF (storedHeader Z cap cfg hdr objs) Lfull) :
    (writeFile Z cap cfg hdr objs).length = (storedHeader Z cap cfg hdr objs).num 7 := by
  rw [writeFile_eq, encodeStats_eq cap _ hH, List.length_append, encItems_length _ _ hH]
  have h144 : ∀ o : Obj, itemsSize o Lfull = 144 := fun o => by simp [Lfull, Lstats, itemsSize, Item.size]
  rw [h144]
  unfold storedHeader payloads
  simp only [Obj.setNum, List.map_append, flattenB_append, List.length_append]
  simp
  split <;> simp [flattenB] <;> omega

/-- with restore points, the stored offset designates the start of the trailing container -/
theorem C05_restore_point_offset (Z : Zlib) (cap : Nat) (cfg : WCfg) (hdr : Obj) (objs : List (Codec × Obj))
    (hrp : cfg.restorePoints = true) (hH : ItemsWF (storedHeader Z cap cfg hdr objs) Lfull) :
    (storedHeader Z cap cfg hdr objs).num 13 + (encodeContainer Z cap cfg.level []).length =
      (writeFile Z cap cfg hdr objs).length := by
  rw [C05_file_size Z cap cfg hdr objs hH]
  unfold storedHeader
  simp [Obj.setNum, hrp]

/-- caller-supplied header fields are stored verbatim -/
theorem C05_caller_fields_verbatim (Z : Zlib) (cap : Nat) (cfg : WCfg) (hdr : Obj) (objs : List (Codec × Obj)) (g : Nat)
    (h7 : g ≠ 7) (h8 : g ≠ 8) (h9 : g ≠ 9) (h13 : g ≠ 13) :
    (storedHeader Z cap cfg hdr objs).num g = hdr.num g ∧ ∀ f, (storedHeader Z cap cfg hdr objs).buf f = hdr.buf f := by
  unfold storedHeader
  simp only
  refine ⟨?_, fun f => ?_⟩
  · rw [num_setNum3 _ _ _ _ g h7 h8 h9]
    split
    · exact Obj.setNum_num_ne _ _ h13
    · rfl
  · split <;> rfl

/-- **the reader's running counters equal the header values**, and the header comes back as stored -/
theorem C05_reader_counters (Z : Zlib) (hZ : ZRT Z) (cap : Nat) (cfg : WCfg) (hdr : Obj) (L : List (Codec × Layout × Obj))
    (hL : ∀ x ∈ L, Parsable cap x.1 x.2.1 x.2.2 ∧ ArrOK x.1.fresh x.2.1.items)
    (hsig : hdr.num 0 = FILESIG)
    (hH : ItemsWF (storedHeader Z cap cfg hdr (L.map fun x => (x.1, x.2.2))) Lfull)
    (hP : ∀ p ∈ payloads cap cfg (L.map fun x => (x.1, x.2.2)), PayloadOK Z cap cfg.level p) :
    (readFile Z cap (writeFile Z cap cfg hdr (L.map fun x => (x.1, x.2.2)))).uncompressedSize =
      (readFile Z cap (writeFile Z cap cfg hdr (L.map fun x => (x.1, x.2.2)))).stats.num 8 ∧
    (readFile Z cap (writeFile Z cap cfg hdr (L.map fun x => (x.1, x.2.2)))).objectCount = countOf L ∧
    Agree (Lfull.filterMap Item.numDef) (Lfull.filterMap Item.bufDef)
      (readFile Z cap (writeFile Z cap cfg hdr (L.map fun x => (x.1, x.2.2)))).stats
      (storedHeader Z cap cfg hdr (L.map fun x => (x.1, x.2.2))) := by
  obtain ⟨ds, _, _, _, h4, h5, h6⟩ := read_write_file Z hZ cap cfg hdr L hL hsig hH hP
  refine ⟨?_, h4, h6⟩
  rw [h5, h6.1 8 (by simp [Lfull, Lstats, Item.numDef]), C05_uncompressed_size]

/-- the reader's object counter is the stored object count when the writer's pre-processing leaves the type codes alone
    (true of every exactly-framed class: `Gen.exact_hdr`) -/
theorem C05_count_matches (L : List (Codec × Layout × Obj))
    (hty : ∀ x ∈ L, (pre x.1 x.2.1 x.2.2).num 4 = x.2.2.num 4) :
    countOf L = ((L.map fun x => (x.1, x.2.2)).filter fun p => p.2.num 4 ≠ 115).length := by
  induction L with
  | nil => rfl
  | cons x l ih =>
    have h1 := hty x (by simp)
    have h2 := ih (fun y hy => hty y (by simp [hy]))
    simp only [countOf, List.map_cons, List.filter_cons, h1, h2]
    by_cases h : x.2.2.num 4 = 115
    · simp [h]
    · simp [h]; omega

end Blf.Props
