import Blf.Gen.Checks
import Blf.Codec.Tables
import Blf.Codec.Pre
/-!
# C02 — Objects from Vector-produced logs survive decode-then-encode byte for byte

> Decoding any object taken from a log produced by Vector's own tools and encoding the decoded object
> again reproduces the original bytes exactly, including optional trailing fields of older or newer
> layout versions, reserved fields and alignment padding.  The same holds after changing any field
> value inside such an object to any other value that leaves the object's shape unchanged.

The theorem is stated for **every** byte string, not only the fixtures and their single-byte
variants: whatever image the decoder processes completely is the signature plus the item encoding of
the decoded object, and re-encoding that object emits the same items of its pre-processed image, which
differs from the decoded object only in headerSize, objectSize and fields the writer sets to constants
by design (the fields "the encoder recomputes by design").  That the 512 reference images and the raw
samples meet the hypothesis (are decoded completely) and re-encode identically is *evaluated* on every
run by the driver and by the real library (data statement, not a theorem).
-/
namespace Blf.Props
open Blf

theorem exact_mem2 {p : Codec × Layout} (hp : p ∈ Gen.exactLayouts) : Reg p.1 p.2 :=
  regularCheck_sound _ _ (List.all_eq_true.mp Gen.exact_all p hp)

/-- **C02 (left inverse / re-encode)** for every exactly-framed class and every byte string. -/
theorem C02_left_inverse (cfg : Cfg) (hs : cfg.sticky = false) (p : Codec × Layout) (hp : p ∈ Gen.exactLayouts)
    (o0 : Obj) (b : Bytes) (harr : ArrOK o0 p.2.items)
    (h4 : 4 ≤ b.length) (hb : b.take 4 = leBytes 4 SIG)
    (hh : (p.1.decode cfg o0 b).halt = .none) (hsh : (p.1.decode cfg o0 b).short = false) :
    (∃ rest, b = leBytes 4 SIG ++ encItems (p.1.decode cfg o0 b).obj p.2.body ++ rest) ∧
    (p.1.encode cfg (p.1.decode cfg o0 b).obj).halt = .none ∧
    (p.1.encode cfg (p.1.decode cfg o0 b).obj).out =
      leBytes 4 SIG ++ encItems (pre p.1 p.2 (p.1.decode cfg o0 b).obj) p.2.items ∧
    (∀ f, (pre p.1 p.2 (p.1.decode cfg o0 b).obj).buf f = (p.1.decode cfg o0 b).obj.buf f) ∧
    (∀ g, g ≠ p.2.hsF → g ≠ p.2.osF →
      (∀ q ∈ p.2.pre, q.1 = g → isLenAssign p.2.items q.1 q.2 = true) →
      (pre p.1 p.2 (p.1.decode cfg o0 b).obj).num g = (p.1.decode cfg o0 b).obj.num g) :=
  regular_reencode cfg hs p.1 p.2 (exact_mem2 hp) o0 b harr h4 hb hh hsh

/-- the default-constructed object of every exactly-framed class has correctly sized arrays, so the
    hypothesis `ArrOK` holds for what `createObject` hands to `read` -/
theorem C02_fresh_arrays : (Gen.exactLayouts.all fun p => arrOKb p.1.fresh p.2.items) = true := by
  decide +kernel

/-- non-vacuity: the sample object's own encoding is a byte string meeting the hypotheses -/
example : match Gen.sample with
    | some (c, lay, o) =>
      let b := (c.encode {} o).out
      4 ≤ b.length ∧ b.take 4 = leBytes 4 SIG ∧ (c.decode {} c.fresh b).halt = .none ∧
        (c.decode {} c.fresh b).short = false
    | none => False := by
  simp only [Gen.sample]
  decide

end Blf.Props
