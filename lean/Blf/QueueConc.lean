import Blf.Queue
/-!
# The object-queue stage as a concurrent transition system

One producer (the parser thread in a read session / the application in a write session) that writes
the objects `toSend` and then declares the end of the stream with `setFileSize(tellp)`; one consumer
that reads until it gets null.  Threads are `running` or `asleep` on a condition variable; a step is
one critical section of `Blf.Queue` executed by a running thread whose guard holds, or a running
thread going to sleep because its guard is false.  Every executed method wakes the sleepers on the
condition variables it notifies (`Queue.notifies`).

Proved for every capacity ≥ 1, every number of objects, every interleaving:
* `inv_step`      : the history invariant `got ++ queue ++ toSend = all` and *no lost wake-up*
                    (a sleeper's guard is false) are preserved by every step;
* `no_deadlock`   : in every reachable non-final state some thread can take a step;
* `measure_step`  : a natural-number measure strictly decreases on every step, so **every** schedule —
                    fair or not — reaches a final state;
* `final_correct` : in a final state the consumer has received exactly the objects sent, in order.
-/
namespace Blf.QueueConc
open Blf.Queue

inductive Status where
  | running
  | asleep (cv : CV)
  | done
  deriving DecidableEq, Repr

structure Sys where
  q : State
  toSend : List Nat
  prod : Status        -- producer; `done` after it declared the end of the stream
  eosSent : Bool
  got : List Nat
  cons : Status        -- consumer; `done` after it received null
  deriving Repr

/-- wake the sleepers on the condition variables a method notifies -/
def wake (cvs : List CV) : Status → Status
  | .asleep cv => if cv ∈ cvs then .running else .asleep cv
  | s => s

/-- the operation the producer wants to execute next -/
def prodOp (s : Sys) : Op :=
  match s.toSend with
  | x :: _ => .write x
  | [] => .setFileSize s.q.tellp

inductive Step : Sys → Sys → Prop
  | send (s : Sys) (x : Nat) (r : List Nat) (h1 : s.prod = .running) (h2 : s.toSend = x :: r)
      (hg : Queue.guard s.q (.write x) = true) :
      Step s { s with q := (step s.q (.write x)).1, toSend := r, cons := wake (notifies (.write x)) s.cons }
  | sendBlock (s : Sys) (x : Nat) (r : List Nat) (h1 : s.prod = .running) (h2 : s.toSend = x :: r)
      (hg : Queue.guard s.q (.write x) = false) :
      Step s { s with prod := .asleep .tellg }
  | eos (s : Sys) (h1 : s.prod = .running) (h2 : s.toSend = []) :
      Step s { s with q := (step s.q (.setFileSize s.q.tellp)).1, prod := .done, eosSent := true,
                      cons := wake (notifies (.setFileSize 0)) s.cons }
  | recv (s : Sys) (h1 : s.cons = .running) (hg : Queue.guard s.q .read = true) (x : Nat) (r : List Nat)
      (hq : s.q.queue = x :: r) :
      Step s { s with q := (step s.q .read).1, got := s.got ++ [x], prod := wake (notifies .read) s.prod }
  | recvNull (s : Sys) (h1 : s.cons = .running) (hg : Queue.guard s.q .read = true) (hq : s.q.queue = []) :
      Step s { s with q := (step s.q .read).1, cons := .done, prod := wake (notifies .read) s.prod }
  | recvBlock (s : Sys) (h1 : s.cons = .running) (hg : Queue.guard s.q .read = false) :
      Step s { s with cons := .asleep .tellp }

def init (cap : Nat) (objs : List Nat) : Sys :=
  { q := { bufferSize := cap }, toSend := objs, prod := .running, eosSent := false, got := [], cons := .running }

def Final (s : Sys) : Prop := s.prod = .done ∧ s.cons = .done

/-- invariant: history, positions, end-of-stream discipline, no lost wake-up, no abort in this session -/
structure Inv (all : List Nat) (s : Sys) : Prop where
  hist : s.got ++ s.q.queue ++ s.toSend = all
  pos : s.q.tellg + s.q.queue.length = s.q.tellp
  noAbort : s.q.abort = false
  cap : 0 < s.q.bufferSize
  -- the declared size is beyond the put position until the producer declares the end; then it equals it
  eos1 : s.eosSent = false → s.q.fileSize = U32MAX
  eos2 : s.eosSent = true → s.q.fileSize = s.q.tellp ∧ s.toSend = [] ∧ s.prod = .done
  eos3 : s.prod = .done → s.eosSent = true
  -- sleepers sleep on the variable their operation waits on, with a false guard
  prodSleep : ∀ cv, s.prod = .asleep cv → cv = .tellg ∧ ∃ x r, s.toSend = x :: r ∧ Queue.guard s.q (.write x) = false
  consSleep : ∀ cv, s.cons = .asleep cv → cv = .tellp ∧ Queue.guard s.q .read = false
  consDone : s.cons = .done → s.q.queue = [] ∧ s.eosSent = true
  small : s.q.tellp + s.toSend.length < U32MAX      -- outside: wrap after 2^32 objects

theorem inv_init (cap : Nat) (hc : 0 < cap) (objs : List Nat) (hs : objs.length < U32MAX) :
    Inv objs (init cap objs) := by
  refine ⟨by simp [init], by simp [init], rfl, hc, fun _ => rfl, by simp [init], by simp [init],
    by simp [init], by simp [init], by simp [init], by simpa [init] using hs⟩

theorem guard_read_false_iff (q : State) :
    Queue.guard q .read = false ↔ q.abort = false ∧ q.queue = [] ∧ q.tellg < q.fileSize := by
  simp [Queue.guard, Nat.not_le]
  cases q.queue <;> simp

theorem guard_write_false_iff (q : State) (x : Nat) :
    Queue.guard q (.write x) = false ↔ q.abort = false ∧ q.bufferSize ≤ q.queue.length := by
  simp [Queue.guard, Nat.not_lt]

/-- **invariant preservation** (includes *no lost wake-up*) -/
theorem inv_step (all : List Nat) (s t : Sys) (hi : Inv all s) (hst : Step s t) : Inv all t := by
  cases hst with
  | send x r h1 h2 hg =>
    have hne : s.eosSent = false := by
      cases he : s.eosSent with
      | false => rfl
      | true => have := (hi.eos2 he).2.1; rw [h2] at this; simp at this
    have hsm := hi.small; rw [h2] at hsm; simp at hsm
    have he1 := hi.eos1 hne
    refine ⟨?_, ?_, ?_, ?_, ?_, ?_, ?_, ?_, ?_, ?_, ?_⟩
    · have := hi.hist; rw [h2] at this; simpa [step, List.append_assoc] using this
    · have := hi.pos; simp [step]; omega
    · simpa [step] using hi.noAbort
    · simpa [step] using hi.cap
    · intro _
      simp only [step]
      have : ¬ (s.q.tellp + 1 > s.q.fileSize) := by rw [he1]; simp only [U32MAX] at hsm ⊢; omega
      rw [if_neg this]; exact he1
    · intro h; simp only at h; rw [hne] at h; simp at h
    · intro h; simp only at h; rw [h1] at h; simp at h
    · intro cv h; simp only at h; rw [h1] at h; simp at h
    · -- the consumer was woken if it slept on tellp; it cannot be asleep on anything else
      intro cv h
      simp only [wake, notifies] at h
      cases hc : s.cons with
      | running => rw [hc] at h; simp at h
      | done => rw [hc] at h; simp at h
      | asleep cv' =>
        have := (hi.consSleep cv' hc).1
        subst this
        rw [hc] at h; simp at h
    · intro h
      simp only [wake, notifies] at h
      cases hc : s.cons with
      | running => rw [hc] at h; simp at h
      | asleep cv' => rw [hc] at h; simp at h; split at h <;> simp at h
      | done => have := (hi.consDone hc).2; rw [hne] at this; simp at this
    · simp [step]; omega
  | sendBlock x r h1 h2 hg =>
    refine ⟨hi.hist, hi.pos, hi.noAbort, hi.cap, hi.eos1, ?_, ?_, ?_, hi.consSleep, hi.consDone, hi.small⟩
    · intro h
      have := (hi.eos2 h).2.1; rw [h2] at this; simp at this
    · intro h; simp at h
    · intro cv h
      simp only [Status.asleep.injEq] at h
      exact ⟨h.symm, x, r, h2, hg⟩
  | eos h1 h2 =>
    have hne : s.eosSent = false := by
      cases he : s.eosSent with
      | false => rfl
      | true => have := (hi.eos2 he).2.2; rw [h1] at this; simp at this
    refine ⟨?_, ?_, ?_, ?_, ?_, ?_, ?_, ?_, ?_, ?_, ?_⟩
    · simpa [step] using hi.hist
    · simpa [step] using hi.pos
    · simpa [step] using hi.noAbort
    · simpa [step] using hi.cap
    · intro h; simp at h
    · intro _; exact ⟨by simp [step], h2, rfl⟩
    · intro _; rfl
    · intro cv h; simp at h
    · intro cv h
      simp only [wake, notifies] at h
      cases hc : s.cons with
      | running => rw [hc] at h; simp at h
      | done => rw [hc] at h; simp at h
      | asleep cv' =>
        have := (hi.consSleep cv' hc).1
        subst this
        rw [hc] at h; simp at h
    · intro h
      simp only [wake, notifies] at h
      cases hc : s.cons with
      | running => rw [hc] at h; simp at h
      | asleep cv' => rw [hc] at h; simp at h; split at h <;> simp at h
      | done => have := (hi.consDone hc).2; rw [hne] at this; simp at this
    · simpa [step] using hi.small
  | recv h1 hg x r hq =>
    refine ⟨?_, ?_, ?_, ?_, ?_, ?_, ?_, ?_, ?_, ?_, ?_⟩
    · have := hi.hist; rw [hq] at this; simpa [step, hq, List.append_assoc] using this
    · have := hi.pos; rw [hq] at this; simp [step, hq] at this ⊢; omega
    · simpa [step, hq] using hi.noAbort
    · simpa [step, hq] using hi.cap
    · intro h; have := hi.eos1 h; simpa [step, hq] using this
    · intro h
      have := hi.eos2 h
      refine ⟨by simpa [step, hq] using this.1, this.2.1, ?_⟩
      simp only [wake, notifies, this.2.2]
    · intro h
      simp only [wake, notifies] at h
      cases hp : s.prod with
      | running => rw [hp] at h; simp at h
      | asleep cv' => rw [hp] at h; simp at h; split at h <;> simp at h
      | done => exact hi.eos3 hp
    · -- the producer was woken if it slept on tellg
      intro cv h
      simp only [wake, notifies] at h
      cases hp : s.prod with
      | running => rw [hp] at h; simp at h
      | done => rw [hp] at h; simp at h
      | asleep cv' =>
        have := (hi.prodSleep cv' hp).1
        subst this
        rw [hp] at h; simp at h
    · intro cv h; simp only at h; rw [h1] at h; simp at h
    · intro h; simp only at h; rw [h1] at h; simp at h
    · simpa [step, hq] using hi.small
  | recvNull h1 hg hq =>
    have hgr := hg
    simp only [Queue.guard, hq, List.isEmpty_nil, Bool.not_true, Bool.or_false, hi.noAbort, Bool.false_or,
      decide_eq_true_eq] at hgr
    have hes : s.eosSent = true := by
      cases he : s.eosSent with
      | true => rfl
      | false =>
        have hp := hi.pos; rw [hq] at hp; simp at hp
        have h := hi.eos1 he
        have := hi.small; rw [h] at hgr; omega
    refine ⟨?_, ?_, ?_, ?_, ?_, ?_, ?_, ?_, ?_, ?_, ?_⟩
    · simpa [step, hq] using hi.hist
    · simpa [step, hq] using hi.pos
    · simpa [step, hq] using hi.noAbort
    · simpa [step, hq] using hi.cap
    · intro h; have := hi.eos1 h; simpa [step, hq] using this
    · intro h
      have := hi.eos2 h
      refine ⟨by simpa [step, hq] using this.1, this.2.1, ?_⟩
      simp only [wake, notifies, this.2.2]
    · intro _; exact hes
    · intro cv h
      simp only [wake, notifies] at h
      cases hp : s.prod with
      | running => rw [hp] at h; simp at h
      | done => rw [hp] at h; simp at h
      | asleep cv' =>
        have := (hi.prodSleep cv' hp).1
        subst this
        rw [hp] at h; simp at h
    · intro cv h; simp at h
    · intro _; exact ⟨by simp [step, hq], hes⟩
    · simpa [step, hq] using hi.small
  | recvBlock h1 hg =>
    refine ⟨hi.hist, hi.pos, hi.noAbort, hi.cap, hi.eos1, hi.eos2, hi.eos3, hi.prodSleep, ?_, ?_, hi.small⟩
    · intro cv h
      simp only [Status.asleep.injEq] at h
      exact ⟨h.symm, hg⟩
    · intro h; simp at h

/-- **no deadlock**: in every state satisfying the invariant that is not final, some step exists -/
theorem no_deadlock (all : List Nat) (s : Sys) (hi : Inv all s) (hnf : ¬ Final s) : ∃ t, Step s t := by
  -- a running thread can always step (execute or go to sleep)
  cases hp : s.prod with
  | running =>
    cases hts : s.toSend with
    | nil => exact ⟨_, Step.eos s hp hts⟩
    | cons x r =>
      cases hg : Queue.guard s.q (.write x) with
      | true => exact ⟨_, Step.send s x r hp hts hg⟩
      | false => exact ⟨_, Step.sendBlock s x r hp hts hg⟩
  | done =>
    cases hc : s.cons with
    | running =>
      cases hg : Queue.guard s.q .read with
      | false => exact ⟨_, Step.recvBlock s hc hg⟩
      | true =>
        cases hq : s.q.queue with
        | nil => exact ⟨_, Step.recvNull s hc hg hq⟩
        | cons x r => exact ⟨_, Step.recv s hc hg x r hq⟩
    | done => exact absurd ⟨hp, hc⟩ hnf
    | asleep cv =>
      -- impossible: the producer is done, so the end is declared and the reader's guard is true
      exfalso
      have hg := (hi.consSleep cv hc).2
      have he := hi.eos3 hp
      have hfs := (hi.eos2 he).1
      have := (guard_read_false_iff s.q).mp hg
      have hpos := hi.pos
      rw [this.2.1] at hpos; simp at hpos
      omega
  | asleep cv =>
    cases hc : s.cons with
    | running =>
      cases hg : Queue.guard s.q .read with
      | false => exact ⟨_, Step.recvBlock s hc hg⟩
      | true =>
        cases hq : s.q.queue with
        | nil => exact ⟨_, Step.recvNull s hc hg hq⟩
        | cons x r => exact ⟨_, Step.recv s hc hg x r hq⟩
    | done =>
      exfalso
      have := (hi.consDone hc).2
      have := (hi.eos2 this).2.2
      rw [hp] at this; simp at this
    | asleep cv' =>
      -- both asleep: the queue would be full (≥ cap ≥ 1 objects) and empty at once
      exfalso
      obtain ⟨_, x, r, _, hgw⟩ := hi.prodSleep cv hp
      have hgr := (hi.consSleep cv' hc).2
      have h1 := (guard_write_false_iff s.q x).mp hgw
      have h2 := (guard_read_false_iff s.q).mp hgr
      have hcap := hi.cap
      rw [h2.2.1] at h1; simp at h1; omega

def running (st : Status) : Nat := match st with | .running => 1 | _ => 0
def notDone (st : Status) : Nat := match st with | .done => 0 | _ => 1

/-- termination measure: three units per unit of remaining work plus the number of running threads -/
def measure (s : Sys) : Nat :=
  3 * (2 * s.toSend.length + s.q.queue.length + notDone s.prod + notDone s.cons) + running s.prod + running s.cons

theorem running_wake_le (cvs : List CV) (st : Status) : running (wake cvs st) ≤ running st + 1 := by
  cases st with
  | running => simp [wake, running]
  | done => simp [wake, running]
  | asleep cv => simp only [wake]; split <;> simp [running]

theorem notDone_wake (cvs : List CV) (st : Status) : notDone (wake cvs st) = notDone st := by
  cases st with
  | running => simp [wake]
  | done => simp [wake]
  | asleep cv => simp only [wake]; split <;> simp [notDone]

/-- **termination**: the measure strictly decreases on every step, hence every schedule is finite -/
theorem measure_step (s t : Sys) (hst : Step s t) : measure t < measure s := by
  cases hst with
  | send x r h1 h2 hg =>
    have hw := running_wake_le (notifies (.write x)) s.cons
    have hn := notDone_wake (notifies (.write x)) s.cons
    have hl : s.toSend.length = r.length + 1 := by rw [h2]; rfl
    have hq : (step s.q (.write x)).1.queue.length = s.q.queue.length + 1 := by simp [step]
    simp only [measure, hn, hq, hl]
    omega
  | sendBlock x r h1 h2 hg =>
    have : running s.prod = 1 := by rw [h1]; rfl
    have h3 : notDone s.prod = 1 := by rw [h1]; rfl
    simp only [measure, this, h3]
    simp [running, notDone]
  | eos h1 h2 =>
    have hw := running_wake_le (notifies (.setFileSize 0)) s.cons
    have hn := notDone_wake (notifies (.setFileSize 0)) s.cons
    have h3 : running s.prod = 1 := by rw [h1]; rfl
    have h4 : notDone s.prod = 1 := by rw [h1]; rfl
    have hq : (step s.q (.setFileSize s.q.tellp)).1.queue = s.q.queue := by simp [step]
    simp only [measure, hn, hq, h3, h4]
    have : running Status.done = 0 := rfl
    have : notDone Status.done = 0 := rfl
    omega
  | recv h1 hg x r hq =>
    have hw := running_wake_le (notifies .read) s.prod
    have hn := notDone_wake (notifies .read) s.prod
    have hq2 : (step s.q .read).1.queue = r := by simp [step, hq]
    have hl : s.q.queue.length = r.length + 1 := by rw [hq]; rfl
    simp only [measure, hn, hq2, hl]
    omega
  | recvNull h1 hg hq =>
    have hw := running_wake_le (notifies .read) s.prod
    have hn := notDone_wake (notifies .read) s.prod
    have hq2 : (step s.q .read).1.queue = [] := by simp [step, hq]
    have h3 : running s.cons = 1 := by rw [h1]; rfl
    have h4 : notDone s.cons = 1 := by rw [h1]; rfl
    have : running Status.done = 0 := rfl
    have : notDone Status.done = 0 := rfl
    simp only [measure, hn, hq2, hq, h3, h4, List.length_nil]
    omega
  | recvBlock h1 hg =>
    have : running s.cons = 1 := by rw [h1]; rfl
    have h3 : notDone s.cons = 1 := by rw [h1]; rfl
    simp only [measure, this, h3]
    simp [running, notDone]

/-- **result independence (C07 for this stage)**: in a final state the consumer has received exactly the
    objects the producer sent, in order, each once; the null came after the last one -/
theorem final_correct (all : List Nat) (s : Sys) (hi : Inv all s) (hf : Final s) : s.got = all := by
  have h1 := hi.consDone hf.2
  have h2 := (hi.eos2 h1.2).2.1
  have := hi.hist
  rw [h1.1, h2] at this
  simpa using this

/-- reachability -/
inductive Reach (cap : Nat) (objs : List Nat) : Sys → Prop
  | init : Reach cap objs (init cap objs)
  | step (s t : Sys) : Reach cap objs s → Step s t → Reach cap objs t

theorem reach_inv (cap : Nat) (hc : 0 < cap) (objs : List Nat) (hs : objs.length < U32MAX) (s : Sys)
    (h : Reach cap objs s) : Inv objs s := by
  induction h with
  | init => exact inv_init cap hc objs hs
  | step s t _ hst ih => exact inv_step objs s t ih hst

end Blf.QueueConc
