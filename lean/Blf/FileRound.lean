import Blf.FileSeq
import Blf.Codec.Pre
import Blf.Codec.Sticky
/-!
# From objects to the stream and back: the object parser on a stream of encodings  (C01, stream level)

`parse_objects`: for every list of objects of exactly-framed classes that the writer accepts, the object parser
(`objectLoop`, the model of `uncompressedFileReadThread`) run on the concatenation of their encodings delivers exactly these
objects — every field of the layout equal to the pre-processed original —, in order, each once, counts them, and ends
with the null result at the end of the stream.
-/
namespace Blf.FileRound
open Blf Blf.FileSeq

/-- the four header items every object layout starts with (`ObjectHeaderBase` behind the signature) -/
def hdr4 : List Item := [.scalar 1 2, .scalar 2 2, .scalar 3 4, .scalar 4 4]

theorem ohb_prog : Gen.ObjectHeaderBase.readProg = Stmt.block (.sync 0 :: canonRd hdr4) := rfl

/-- the signature search followed by the canonical reads of an item list, started anywhere in a stream where the
    signature and the encoding of the items stand -/
theorem syncRd_at (cfg : Cfg) (hs : cfg.sticky = false) (L : List Item) (sigF : Nat) (ow : Obj) (st : St) (rest : Bytes)
    (hok : itemsOK [sigF] [] L = true) (hwf : ItemsWF ow L) (hsig : ow.num sigF = SIG)
    (harr : ArrOK st.obj L) (hcap : ∀ f ew len, Item.var f ew len ∈ L → ow.num len * ew ≤ cfg.cap)
    (h0 : st.halt = .none) (hin : st.inp.drop st.pos = leBytes 4 SIG ++ encItems ow L ++ rest) :
    ((Stmt.block (.sync sigF :: canonRd L)).exec cfg st).halt = .none ∧
    ((Stmt.block (.sync sigF :: canonRd L)).exec cfg st).short = st.short ∧
    ((Stmt.block (.sync sigF :: canonRd L)).exec cfg st).inp = st.inp ∧
    ((Stmt.block (.sync sigF :: canonRd L)).exec cfg st).out = st.out ∧
    ((Stmt.block (.sync sigF :: canonRd L)).exec cfg st).pos = st.pos + 4 + (encItems ow L).length ∧
    Agree (L.filterMap Item.numDef ++ [sigF]) (L.filterMap Item.bufDef)
      ((Stmt.block (.sync sigF :: canonRd L)).exec cfg st).obj ow := by
  have hl4 : (leBytes 4 SIG).length = 4 := by simp
  have hlen : st.pos + 4 + (encItems ow L).length + rest.length = st.inp.length := by
    have := congrArg List.length hin
    simp only [List.length_drop, List.length_append, hl4] at this
    have hp : st.pos ≤ st.inp.length := by
      by_cases h : st.pos ≤ st.inp.length
      · exact h
      · rw [List.drop_eq_nil_of_le (by omega)] at hin
        have := congrArg List.length hin
        simp [hl4] at this
        omega
    omega
  rw [exec_block_cons]
  rw [exec_sync_at_sig cfg hs sigF st (by omega) (by rw [hin, List.append_assoc]; exact (take_append_len _ _ 4 hl4).1)]
  rw [if_pos (by exact h0)]
  have hdrop : st.inp.drop (st.pos + 4) = encItems ow L ++ rest := by
    rw [← List.drop_drop, hin, List.append_assoc]; exact (take_append_len _ _ 4 hl4).2
  have hag : Agree [sigF] [] (st.obj.setNum sigF SIG) ow := by
    refine ⟨fun g hg => ?_, fun g hg => by simp at hg⟩
    simp only [List.mem_singleton] at hg; subst hg; simp [hsig]
  obtain ⟨o', hd, ha⟩ := dec_enc cfg.cap L [sigF] [] ow (st.obj.setNum sigF SIG) rest hok hwf hag hcap
  have hrd := exec_canonRd cfg hs L [sigF] []
    { st with obj := st.obj.setNum sigF SIG, pos := st.pos + 4, good := true, eof := false } hok h0 (by simp only; omega)
    (by intro f n h; simpa using harr f n h)
  simp only [hdrop] at hrd
  rw [hd] at hrd
  refine ⟨hrd.halt, hrd.short, hrd.inp, hrd.out, ?_, ?_⟩
  · have h1 := drop_eq_pos _ _ _ hrd.pos hrd.rest
    simp only at h1
    omega
  · rw [hrd.obj]
    exact ha.mono (fun g hg => hg) (fun g hg => by simpa using hg)

/-- the layout begins with the base header, and the writer's pre-processing leaves the type code alone -/
def hdrCheck (lay : Layout) : Bool :=
  lay.sigF == 0 && lay.hsF == 1 && lay.osF == 3 && lay.items.take 4 == hdr4 && !(lay.pre.map (·.1)).contains 4

theorem hdrCheck_sound (lay : Layout) (h : hdrCheck lay = true) :
    lay.sigF = 0 ∧ lay.hsF = 1 ∧ lay.osF = 3 ∧ (∃ R, lay.items = hdr4 ++ R) ∧ 4 ∉ lay.pre.map (·.1) := by
  simp only [hdrCheck, Bool.and_eq_true, beq_iff_eq, Bool.not_eq_eq_eq_not, Bool.not_true, List.contains_eq_mem,
    decide_eq_false_iff_not] at h
  obtain ⟨⟨⟨⟨h1, h2⟩, h3⟩, h4⟩, h5⟩ := h
  refine ⟨h1, h2, h3, ⟨lay.items.drop 4, ?_⟩, h5⟩
  rw [← h4]; exact (List.take_append_drop 4 lay.items).symm

/-- what the parse theorem needs of one object `o` of class `c` (exact layout `lay`) -/
structure Parsable (cap : Nat) (c : Codec) (lay : Layout) (o : Obj) : Prop where
  reg : Reg c lay
  sig0 : lay.sigF = 0
  os3 : lay.osF = 3
  hdr : ∃ R, lay.items = hdr4 ++ R
  user : UserWF lay o
  sig : o.num 0 = SIG
  cap : ∀ f ew len, Item.var f ew len ∈ lay.items → (o.buf f).length ≤ cap
  fac : lookupClass ((pre c lay o).num 4) = some c          -- the factory maps the object's type code back to its class
  size16 : 16 ≤ (pre c lay o).num 3                           -- (every layout holds the 16-byte base header)
  noSeekBack : c.sizeExpr.eval c.fresh ≤ (pre c lay o).num 3  -- not shorter than the default layout (no backward seek)

/-- the encoding of the object as it stands in the stream -/
def enc (cap : Nat) (c : Codec) (o : Obj) : Bytes := (c.encode (memCfg cap) o).out

/-- invariant of the parser's stream state between objects -/
structure PInv (B : Bytes) (ps : PState) : Prop where
  ok : StreamOK ps.st
  inp : ps.st.inp = B
  outcome : ps.outcome = none

theorem fresh_arrOK (c : Codec) (L : List Item) (h : ∀ f n, Item.fixed f n ∈ L → ∃ fi, c.fields[f]? = some fi ∧ ∃ ew, fi.kind = .arr n ew) :
    ArrOK c.fresh L := by
  intro f n hm
  obtain ⟨fi, hf, ew, hk⟩ := h f n hm
  simp [Codec.fresh, hf, hk, zeros_length]

/-- **one object**: the parser, standing at the first byte of the encoding of a parsable object, delivers it — every
    field of the layout as pre-processed by the writer —, counts it, and stands behind its last byte -/
theorem objectStep_object (cap : Nat) (c : Codec) (lay : Layout) (o : Obj) (hp : Parsable cap c lay o)
    (harr : ArrOK c.fresh lay.items) (B rest : Bytes) (ps : PState) (hi : PInv B ps)
    (hin : B.drop ps.st.pos = enc cap c o ++ rest) :
    ∃ ps' ob, objectStep cap ps = some ps' ∧ PInv B ps' ∧ ps'.st.pos = ps.st.pos + (enc cap c o).length ∧
      ps'.objs = (c.name, ob) :: ps.objs ∧
      Agree (lay.items.filterMap Item.numDef ++ [lay.sigF]) (lay.items.filterMap Item.bufDef) ob (pre c lay o) ∧
      ps'.count = (if (pre c lay o).num 4 = 115 then ps.count else ps.count + 1) := by
  have hs : (memCfg cap).sticky = false := rfl
  have hwf := itemsWF_pre c lay hp.reg o hp.user
  have hsigp : (pre c lay o).num lay.sigF = SIG := by rw [pre_sig c lay hp.reg, hp.sig0]; exact hp.sig
  obtain ⟨R, hR⟩ := hp.hdr
  have hcapp : ∀ f ew len, Item.var f ew len ∈ lay.items → (pre c lay o).num len * ew ≤ (memCfg cap).cap := by
    intro f ew len hm
    have hb : (pre c lay o).buf f = o.buf f := pre_buf c lay o f
    have hw : ((pre c lay o).buf f).length = (pre c lay o).num len * ew := itemsWF_mem _ _ hwf _ hm
    rw [← hw, hb]; exact hp.cap f ew len hm
  obtain ⟨_, hout, _, _, _⟩ := regular_frame (memCfg cap) c lay hp.reg o hwf
  have henc : enc cap c o = leBytes 4 SIG ++ encItems (pre c lay o) lay.items := by
    unfold enc; rw [hout, hsigp]
  -- 1. the base header
  have hwf4 : ItemsWF (pre c lay o) hdr4 := by
    have := hwf; rw [hR] at this; exact ((itemsWF_append _ _ _).1 this).1
  have hinp : ps.st.inp = B := hi.inp
  have hin1 : ({ ps.st with obj := Gen.ObjectHeaderBase.fresh, halt := Halt.none } : St).inp.drop
      ({ ps.st with obj := Gen.ObjectHeaderBase.fresh, halt := Halt.none } : St).pos =
      leBytes 4 SIG ++ encItems (pre c lay o) hdr4 ++ (encItems (pre c lay o) R ++ rest) := by
    simp only [hinp, hin, henc, hR, encItems_append, List.append_assoc]
  have hsig0 : (pre c lay o).num 0 = SIG := by rw [← hp.sig0]; exact hsigp
  obtain ⟨a1, a2, a3, a4, a5, a6⟩ := syncRd_at (memCfg cap) hs hdr4 0 (pre c lay o)
    { ps.st with obj := Gen.ObjectHeaderBase.fresh, halt := Halt.none } (encItems (pre c lay o) R ++ rest)
    (by decide) hwf4 hsig0 (by intro f n h; simp [hdr4] at h) (by intro f ew len h; simp [hdr4] at h) rfl hin1
  have hok1 : StreamOK ({ ps.st with obj := Gen.ObjectHeaderBase.fresh, halt := Halt.none } : St) :=
    ⟨hi.ok.good, hi.ok.eof, hi.ok.pos, hi.ok.short⟩
  have hgood := (exec_sticky (memCfg cap) hs _ _ hok1 (by rw [a2]; exact hi.ok.short)).2
  have hlen4 : (encItems (pre c lay o) hdr4).length = 12 := by
    rw [encItems_length _ _ hwf4]; rfl
  unfold objectStep
  rw [ohb_prog]
  generalize (Stmt.block (.sync 0 :: canonRd hdr4)).exec (memCfg cap) { ps.st with obj := Gen.ObjectHeaderBase.fresh, halt := Halt.none } = hd
    at a1 a2 a3 a4 a5 a6 hgood
  simp only at a2 a3 a4 a5
  have hos : hd.obj.num 3 = (pre c lay o).num 3 := a6.1 3 (by simp [hdr4, Item.numDef])
  have hty : hd.obj.num 4 = (pre c lay o).num 4 := a6.1 4 (by simp [hdr4, Item.numDef])
  unfold afterHeader
  rw [if_neg (by simp [a1]), if_neg (by simp [hgood.good]), hos, hty, if_neg (by have := hp.size16; omega), hp.fac]
  simp only
  -- 2. the decoder of the class, from the object's first byte
  have hpos1 : (hd.sback 16).pos = ps.st.pos := by simp only [St.sback]; rw [a5, hlen4]; omega
  have hin2 : ({ hd.sback 16 with obj := c.fresh, halt := Halt.none } : St).inp.drop
      ({ hd.sback 16 with obj := c.fresh, halt := Halt.none } : St).pos =
      leBytes 4 SIG ++ encItems (pre c lay o) lay.items ++ rest := by
    simp only [hpos1]
    show hd.inp.drop ps.st.pos = _
    rw [a3, hinp, hin, henc]
  obtain ⟨b1, b2, b3, b4, b5, b6⟩ := syncRd_at (memCfg cap) hs lay.items lay.sigF (pre c lay o)
    { hd.sback 16 with obj := c.fresh, halt := Halt.none } rest hp.reg.ok hwf hsigp harr hcapp rfl hin2
  have hok2 : StreamOK ({ hd.sback 16 with obj := c.fresh, halt := Halt.none } : St) :=
    ⟨hgood.good, hgood.eof, by simp only [hpos1]; show ps.st.pos ≤ hd.inp.length; rw [a3]; exact hi.ok.pos, hgood.short⟩
  have hgood2 := (exec_sticky (memCfg cap) hs _ _ hok2 (by rw [b2]; exact hgood.short)).2
  unfold classStep
  rw [← hp.reg.rd] at b1 b2 b3 b4 b5 b6 hgood2
  generalize c.readProg.exec (memCfg cap) { hd.sback 16 with obj := c.fresh, halt := Halt.none } = r
    at b1 b2 b3 b4 b5 b6 hgood2
  simp only at b2 b3 b4 b5
  simp only
  rw [if_neg (by simp [b1]), if_neg (by simp [b1]), if_neg (by simp [b1]), if_neg (by simp [hgood2.good]),
    if_neg (by have := hp.noSeekBack; omega)]
  refine ⟨_, r.obj, rfl, ⟨hgood2, by simp only; rw [b3]; show hd.inp = B; rw [a3]; exact hinp, rfl⟩, ?_, rfl, b6, ?_⟩
  · simp only; rw [b5, hpos1, henc]; simp [List.length_append]; omega
  · simp only
    have : r.obj.num 4 = (pre c lay o).num 4 := by
      apply b6.1 4
      rw [hR]; simp [hdr4, Item.numDef]
    rw [this]

theorem sync_at_end (cfg : Cfg) (st : St) (hs : cfg.sticky = false ∨ st.good = true) (f : Nat) (h : st.inp.length ≤ st.pos) :
    ((Stmt.sync f).exec cfg st).halt = .exc := by
  simp only [Stmt.exec]
  have hf : st.inp.length - st.pos + 2 = 1 + 1 := by omega
  rw [hf]
  unfold syncLoop
  have hc : (cfg.sticky && !st.good) = false := by
    rcases hs with hs | hs <;> simp [hs]
  have hr : st.sread cfg 4 = ([], { st with pos := st.inp.length, good := false, eof := true, short := true }) := by
    unfold St.sread
    rw [if_neg (by simp [hc]), if_neg (by omega), if_neg (by omega), List.drop_eq_nil_of_le h]
  rw [hr]
  simp only
  rw [if_neg (by decide)]
  simp

/-- at the end of the stream the parser's loop ends -/
theorem objectStep_at_end (cap : Nat) (ps : PState) (hend : ps.st.pos = ps.st.inp.length) :
    objectStep cap ps = none := by
  unfold objectStep
  have hh : (Gen.ObjectHeaderBase.readProg.exec (memCfg cap) { ps.st with obj := Gen.ObjectHeaderBase.fresh, halt := Halt.none }).halt ≠ .none := by
    rw [ohb_prog, exec_block_cons]
    have hsync := sync_at_end (memCfg cap) { ps.st with obj := Gen.ObjectHeaderBase.fresh, halt := Halt.none } (Or.inl rfl) 0
      (by simp only; omega)
    rw [if_neg (by rw [hsync]; simp), hsync]; simp
  unfold afterHeader
  rw [if_pos hh]

/-- an object as the parser delivers it: the class name and every field of the layout -/
def Delivered (x : Codec × Layout × Obj) (d : String × Obj) : Prop :=
  d.1 = x.1.name ∧
  Agree (x.2.1.items.filterMap Item.numDef ++ [x.2.1.sigF]) (x.2.1.items.filterMap Item.bufDef) d.2 (pre x.1 x.2.1 x.2.2)

/-- the delivered list matches the written list, element by element -/
inductive AllDelivered : List (Codec × Layout × Obj) → List (String × Obj) → Prop
  | nil : AllDelivered [] []
  | cons (x : Codec × Layout × Obj) (d : String × Obj) (l : List (Codec × Layout × Obj)) (ds : List (String × Obj)) :
      Delivered x d → AllDelivered l ds → AllDelivered (x :: l) (d :: ds)

theorem AllDelivered.length_eq {l : List (Codec × Layout × Obj)} {ds : List (String × Obj)} (h : AllDelivered l ds) :
    ds.length = l.length := by
  induction h with
  | nil => rfl
  | cons x d l ds _ _ ih => simp [ih]

def flat (cap : Nat) : List (Codec × Layout × Obj) → Bytes
  | [] => []
  | x :: l => enc cap x.1 x.2.2 ++ flat cap l

def countOf : List (Codec × Layout × Obj) → Nat
  | [] => 0
  | x :: l => (if (pre x.1 x.2.1 x.2.2).num 4 = 115 then 0 else 1) + countOf l

/-- **the object parser on a stream of encodings** -/
theorem parse_objects (cap : Nat) : ∀ (L : List (Codec × Layout × Obj)),
    (∀ x ∈ L, Parsable cap x.1 x.2.1 x.2.2 ∧ ArrOK x.1.fresh x.2.1.items) →
    ∀ (B : Bytes) (ps : PState) (fuel : Nat), PInv B ps → B.drop ps.st.pos = flat cap L → L.length < fuel →
    ∃ ds : List (String × Obj), (objectLoop cap fuel ps).objs = ds.reverse ++ ps.objs ∧ AllDelivered L ds ∧
      (objectLoop cap fuel ps).outcome = none ∧ (objectLoop cap fuel ps).count = ps.count + countOf L := by
  intro L
  induction L with
  | nil =>
    intro _ B ps fuel hi hin hf
    obtain ⟨n, rfl⟩ : ∃ n, fuel = n + 1 := ⟨fuel - 1, by omega⟩
    have hend : ps.st.pos = ps.st.inp.length := by
      have := congrArg List.length hin
      simp [flat] at this
      have := hi.ok.pos
      rw [hi.inp] at this ⊢
      omega
    unfold objectLoop
    rw [objectStep_at_end cap ps hend]
    exact ⟨[], rfl, AllDelivered.nil, hi.outcome, rfl⟩
  | cons x l ih =>
    intro hL B ps fuel hi hin hf
    obtain ⟨n, rfl⟩ : ∃ n, fuel = n + 1 := ⟨fuel - 1, by omega⟩
    obtain ⟨hp, harr⟩ := hL x (by simp)
    obtain ⟨ps', ob, hstep, hi', hpos, hobjs, hag, hcnt⟩ :=
      objectStep_object cap x.1 x.2.1 x.2.2 hp harr B (flat cap l) ps hi (by rw [hin]; rfl)
    have hin' : B.drop ps'.st.pos = flat cap l := by
      rw [hpos, ← List.drop_drop, hin]
      simp [flat]
    obtain ⟨ds, h1, h2, h3, h4⟩ := ih (fun y hy => hL y (by simp [hy])) B ps' n hi' hin' (by simp at hf; omega)
    unfold objectLoop
    rw [hstep]
    simp only [hi'.outcome, Option.isSome_none, Bool.false_eq_true, if_false, hi'.ok.good, Bool.not_true]
    refine ⟨(x.1.name, ob) :: ds, ?_, AllDelivered.cons _ _ _ _ ⟨rfl, hag⟩ h2, h3, ?_⟩
    · rw [h1, hobjs]; simp
    · rw [h4, hcnt]; simp only [countOf]; split <;> omega

theorem enc_length (cap : Nat) (c : Codec) (lay : Layout) (o : Obj) (hp : Parsable cap c lay o) : 4 ≤ (enc cap c o).length := by
  have hwf := itemsWF_pre c lay hp.reg o hp.user
  obtain ⟨_, hout, _, _, _⟩ := regular_frame (memCfg cap) c lay hp.reg o hwf
  unfold enc; rw [hout]; simp

theorem flat_fuel (cap : Nat) : ∀ (L : List (Codec × Layout × Obj)), (∀ x ∈ L, Parsable cap x.1 x.2.1 x.2.2) →
    L.length ≤ (flat cap L).length := by
  intro L
  induction L with
  | nil => intro _; simp
  | cons x l ih =>
    intro h
    have h1 := enc_length cap x.1 x.2.1 x.2.2 (h x (by simp))
    have h2 := ih (fun y hy => h y (by simp [hy]))
    simp only [flat, List.length_append, List.length_cons]
    omega

end Blf.FileRound
