import Blf.FileSeq
import Blf.Codec.Safe
import Blf.Codec.Pos
import Blf.Gen.Safe
/-!
# Reading arbitrary bytes: no undefined memory access, no endless loop  (C10)

`Blf.FileSeq.readFile` is the sequential semantics of a read session (tied to the implementation by the `readfile`
correspondence runs, on valid, mutated and hostile files).  Proved here for **every** byte string, every allocation cap
and every zlib whose `inflate` returns the number of bytes it was asked for:

* `readFile_no_oob`  : the outcome is never `oob` (no read into a container that is too small), because every decoder
                       regenerated from the source passes the verified checker `readSafe` and every container handed to the
                       in-memory stream holds the bytes it declares;
* `readFile_no_hang` : the outcome is never `hang`: every iteration of the object parser consumes at least one byte of the
                       uncompressed stream (the object size is at least 16, the parser never seeks back to the start of
                       the object it just read, every decoder begins with the signature search), so the parser's loop ends.
-/
namespace Blf.FileSafe
open Blf Blf.FileSeq

/-! ### a run of scalar reads -/

def rds (l : List (Nat × Nat)) : Stmt := Stmt.block (l.map fun p => Stmt.rd p.1 p.2)

def wsum : List (Nat × Nat) → Nat
  | [] => 0
  | p :: l => p.2 + wsum l

theorem exec_rd_facts (cfg : Cfg) (hs : cfg.sticky = false) (f w : Nat) (hw : 0 < w) (st : St) :
    ((Stmt.rd f w).exec cfg st).halt = st.halt ∧ ((Stmt.rd f w).exec cfg st).inp = st.inp ∧
    (((Stmt.rd f w).exec cfg st).good = true → ((Stmt.rd f w).exec cfg st).pos = st.pos + w) ∧
    (((Stmt.rd f w).exec cfg st).good = false → ((Stmt.rd f w).exec cfg st).pos = st.inp.length) ∧
    (st.inp.length ≤ st.pos → ((Stmt.rd f w).exec cfg st).good = false) := by
  simp only [Stmt.exec]
  unfold St.sread
  simp only [hs, Bool.false_and, Bool.false_eq_true, if_false]
  rw [if_neg (by omega)]
  split
  · next h => exact ⟨rfl, rfl, fun _ => rfl, fun h' => by simp at h', fun h' => by omega⟩
  · next h => exact ⟨rfl, rfl, fun h' => by simp at h', fun _ => rfl, fun _ => rfl⟩

/-- after a run of scalar reads of positive widths on a non-sticky stream: if the stream is good at the end, every read
    was complete; if the run starts at the end of the input it ends not good -/
theorem exec_rds (cfg : Cfg) (hs : cfg.sticky = false) : ∀ (l : List (Nat × Nat)) (st : St),
    (∀ p ∈ l, 0 < p.2) → st.halt = .none →
    ((rds l).exec cfg st).halt = .none ∧ ((rds l).exec cfg st).inp = st.inp ∧
    (l ≠ [] → ((rds l).exec cfg st).good = true → ((rds l).exec cfg st).pos = st.pos + wsum l) ∧
    (l ≠ [] → st.inp.length ≤ st.pos → ((rds l).exec cfg st).good = false) := by
  intro l
  induction l with
  | nil => intro st _ h0; exact ⟨h0, rfl, fun h => absurd rfl h, fun h => absurd rfl h⟩
  | cons p l ih =>
    intro st hp h0
    obtain ⟨f, w⟩ := p
    have hw : 0 < w := hp (f, w) (by simp)
    obtain ⟨a1, a2, a3, a4, a5⟩ := exec_rd_facts cfg hs f w hw st
    have e : (rds ((f, w) :: l)).exec cfg st = (rds l).exec cfg ((Stmt.rd f w).exec cfg st) := by
      show (Stmt.seq (Stmt.rd f w) (rds l)).exec cfg st = _
      rw [Stmt.exec, if_pos (by rw [a1]; exact h0)]
    rw [e]
    generalize (Stmt.rd f w).exec cfg st = st1 at a1 a2 a3 a4 a5
    obtain ⟨b1, b2, b3, b4⟩ := ih st1 (fun q hq => hp q (by simp [hq])) (by rw [a1]; exact h0)
    refine ⟨b1, by rw [b2, a2], fun _ hg => ?_, fun _ he => ?_⟩
    · by_cases hl : l = []
      · subst hl
        simp only [rds, List.map_nil, Stmt.block, Stmt.exec] at hg ⊢
        simp [wsum, a3 hg]
      · cases hg1 : st1.good with
        | true => rw [b3 hl hg, a3 hg1]; simp [wsum]; omega
        | false =>
          have := b4 hl (by rw [a2, a4 hg1]; exact Nat.le_refl _)
          rw [this] at hg; cases hg
    · by_cases hl : l = []
      · subst hl
        simp only [rds, List.map_nil, Stmt.block, Stmt.exec]
        exact a5 he
      · exact b4 hl (by rw [a2, a4 (a5 he)]; exact Nat.le_refl _)

/-! ### the base header -/

theorem ohb_prog : Gen.ObjectHeaderBase.readProg = Stmt.seq (.sync 0) (rds [(1, 2), (2, 2), (3, 4), (4, 4)]) := rfl

/-- reading the 16-byte base header on the in-memory stream: if it ends without exception and good, 16 bytes or more
    were consumed (filler in front of the signature included) -/
theorem ohb_read (cfg : Cfg) (hs : cfg.sticky = false) (st : St) (h0 : st.halt = .none) (hb : st.pos ≤ st.inp.length) :
    (Gen.ObjectHeaderBase.readProg.exec cfg st).inp = st.inp ∧
    (Gen.ObjectHeaderBase.readProg.exec cfg st).pos ≤ st.inp.length ∧
    ((Gen.ObjectHeaderBase.readProg.exec cfg st).halt = .none → (Gen.ObjectHeaderBase.readProg.exec cfg st).good = true →
      st.pos + 16 ≤ (Gen.ObjectHeaderBase.readProg.exec cfg st).pos) := by
  have hp := exec_posLe cfg hs Gen.ObjectHeaderBase.readProg st
  refine ⟨hp.inp, by have := hp.bound hb; rw [hp.inp] at this; exact this, ?_⟩
  rw [ohb_prog]
  have e : (Stmt.seq (.sync 0) (rds [(1, 2), (2, 2), (3, 4), (4, 4)])).exec cfg st =
      if ((Stmt.sync 0).exec cfg st).halt = .none then (rds [(1, 2), (2, 2), (3, 4), (4, 4)]).exec cfg ((Stmt.sync 0).exec cfg st)
      else (Stmt.sync 0).exec cfg st := by rw [Stmt.exec]
  have hsync := syncLoop_pos cfg hs 0 (st.inp.length - st.pos + 2) 0 st
  have e2 : (Stmt.sync 0).exec cfg st = syncLoop cfg 0 (st.inp.length - st.pos + 2) 0 st := by rw [Stmt.exec]
  rw [← e2] at hsync
  rw [e]
  generalize (Stmt.sync 0).exec cfg st = y at hsync ⊢
  by_cases hh : y.halt = .none
  · rw [if_pos hh]
    intro _ hg
    obtain ⟨_, b2, b3, b4⟩ := exec_rds cfg hs [(1, 2), (2, 2), (3, 4), (4, 4)] y (by simp) hh
    have h3 := b3 (by simp) hg
    rcases hsync.2 h0 hh with h1 | h1
    · simp [wsum] at h3; omega
    · have := b4 (by simp) (by rw [h1]; exact Nat.le_refl _)
      rw [this] at hg; cases hg
  · rw [if_neg hh]; intro h; exact absurd h hh

/-! ### the object parser makes progress -/

theorem lookupClass_mem (code : Nat) (c : Codec) (h : lookupClass code = some c) : c ∈ Gen.allCodecs := by
  unfold lookupClass at h
  split at h
  · exact List.mem_of_find?_eq_some h
  · cases h

theorem codec_safe (c : Codec) (h : c ∈ Gen.allCodecs) : readSafe c = true ∧ c.readProg.syncFirst = true := by
  have h1 := Gen.all_readSafe
  have h2 := Gen.all_syncFirst
  rw [List.all_eq_true] at h1 h2
  exact ⟨h1 c (by simp [h]), h2 c (by simp [h])⟩

/-- the decoder branch: never `oob`, and forward -/
theorem classStep_facts (cap : Nat) (ps ps' : PState) (st1 : St) (osz : Nat) (c : Codec) (hc : c ∈ Gen.allCodecs)
    (h16 : st1.pos + 16 ≤ st1.inp.length) (h : classStep cap ps st1 osz c = some ps') :
    ps'.st.inp = st1.inp ∧ ps'.st.pos ≤ ps'.st.inp.length ∧ (ps.outcome = none → ps'.outcome = none) ∧ st1.pos < ps'.st.pos := by
  have hs : (memCfg cap).sticky = false := rfl
  obtain ⟨hsafe, hsf⟩ := codec_safe c hc
  simp only [readSafe, Bool.and_eq_true] at hsafe
  have hr := exec_posLe (memCfg cap) hs c.readProg { st1 with obj := c.fresh, halt := .none }
  have hnoob := (safeAux_sound (memCfg cap) (arrsOf c) c.readProg none { st1 with obj := c.fresh, halt := .none }
    hsafe.1 hsafe.2 rfl (fresh_arrSized c) (knownOK_none _)).1
  have h4 := exec_syncFirst (memCfg cap) hs c.readProg hsf { st1 with obj := c.fresh, halt := .none } rfl (by simp only; omega)
  unfold classStep at h
  generalize c.readProg.exec (memCfg cap) { st1 with obj := c.fresh, halt := .none } = r at h hr hnoob h4
  have hri : r.inp = st1.inp := hr.inp
  have hrb : r.pos ≤ r.inp.length := hr.bound (by simp only; omega)
  simp only at h4
  generalize c.sizeExpr.eval c.fresh = csz at h
  dsimp only at h
  by_cases h1 : r.halt = .badAlloc
  · rw [if_pos h1] at h; cases h
  rw [if_neg h1, if_neg hnoob] at h
  by_cases h3 : r.halt = .exc
  · rw [if_pos h3] at h; cases h
  rw [if_neg h3] at h
  have hp4 : st1.pos + 4 ≤ r.pos := h4 h3
  by_cases hg : (!r.good) = true
  · rw [if_pos hg] at h; cases h
  rw [if_neg hg] at h
  by_cases hc : csz > osz
  · rw [if_pos hc] at h
    by_cases hback : r.pos + osz ≤ st1.pos + csz
    · rw [if_pos hback] at h; cases h
    · rw [if_neg hback] at h
      injection h with h; subst h
      exact ⟨hri, by simp only; omega, fun _ => rfl, by simp only; omega⟩
  · rw [if_neg hc] at h
    injection h with h; subst h
    exact ⟨hri, hrb, fun _ => rfl, by simp only; omega⟩

/-- what one iteration of the object parser does to the stream: the input stays, the position stays inside it, the
    outcome is never `oob`, and unless the iteration stops the parser the position moves forward -/
theorem objectStep_facts (cap : Nat) (ps ps' : PState) (hb : ps.st.pos ≤ ps.st.inp.length)
    (h : objectStep cap ps = some ps') :
    ps'.st.inp = ps.st.inp ∧ ps'.st.pos ≤ ps'.st.inp.length ∧ (ps.outcome = none → ps'.outcome = none) ∧ ps.st.pos < ps'.st.pos := by
  have hs : (memCfg cap).sticky = false := rfl
  unfold objectStep at h
  have hohb := ohb_read (memCfg cap) hs { ps.st with obj := Gen.ObjectHeaderBase.fresh, halt := .none } rfl hb
  generalize Gen.ObjectHeaderBase.readProg.exec (memCfg cap) { ps.st with obj := Gen.ObjectHeaderBase.fresh, halt := .none } = hd at h hohb
  obtain ⟨hi, hle, h16⟩ := hohb
  simp only at hi hle h16
  unfold afterHeader at h
  split at h
  · cases h
  · next hh =>
    have hh' : hd.halt = .none := by simpa using hh
    split at h
    · cases h
    · next hg =>
      have hg' : hd.good = true := by simpa using hg
      have hpos := h16 hh' hg'
      split at h
      · cases h
      · next hosz =>
        split at h
        · -- unknown type: skip the declared size
          injection h with h; subst h
          simp only [St.sseek, St.sback, memCfg, Bool.false_and, Bool.false_eq_true, if_false]
          refine ⟨hi, by rw [hi]; omega, fun h => h, ?_⟩
          rw [hi]; omega
        · next c hc =>
          obtain ⟨a1, a2, a3, a4⟩ := classStep_facts cap ps ps' (hd.sback 16) (hd.obj.num 3) c (lookupClass_mem _ c hc)
            (by simp only [St.sback]; rw [hi]; omega) h
          refine ⟨by rw [a1]; exact hi, a2, a3, ?_⟩
          simp only [St.sback] at a4
          omega

/-- the object parser's loop on a stream of `n` remaining bytes ends within `n + 1` iterations, with no outcome set:
    neither `hang` nor `oob` -/
theorem objectLoop_outcome (cap : Nat) : ∀ (fuel : Nat) (ps : PState), ps.outcome = none → ps.st.pos ≤ ps.st.inp.length →
    ps.st.inp.length - ps.st.pos < fuel → (objectLoop cap fuel ps).outcome = none := by
  intro fuel
  induction fuel with
  | zero => intro ps _ _ h; omega
  | succ n ih =>
    intro ps ho hb hf
    unfold objectLoop
    cases hstep : objectStep cap ps with
    | none => exact ho
    | some ps' =>
      obtain ⟨a1, a2, a3, a4⟩ := objectStep_facts cap ps ps' hb hstep
      have ho' := a3 ho
      simp only [ho', Option.isSome_none, Bool.false_eq_true, if_false]
      split
      · exact ho'
      · exact ih ps' ho' a2 (by have := a2; rw [a1] at this ⊢; omega)

/-! ### the containers handed to the in-memory stream hold what they declare -/

/-- what `inflate` is assumed to do (zlib is outside the model): a successful call delivers exactly the number of bytes
    the caller asked for (the code compares `uncompress`'s size with `uncompressedFileSize` and throws otherwise) -/
def ZOK (Z : Zlib) : Prop := ∀ c n d, Z.inflate c n = some d → d.length = n

def CInv (cs : CState) : Prop := cs.died = false ∧ ∀ c ∈ cs.conts, c.size ≤ c.data.length

theorem pushContainer_inv (Z : Zlib) (hZ : ZOK Z) (cap : Nat) (cs : CState) (r : St) (h : CInv cs) :
    CInv (pushContainer Z cap cs r) := by
  unfold pushContainer
  dsimp only
  split
  · split
    · exact h
    · next hne =>
      refine ⟨rfl, ?_⟩
      intro c hc
      simp only [List.mem_cons] at hc
      rcases hc with rfl | hc
      · simp only; simp only [ne_eq, Decidable.not_not] at hne; omega
      · exact h.2 c hc
  · split
    · split
      · exact h
      · split
        · next d hd =>
          refine ⟨rfl, ?_⟩
          intro c hc
          simp only [List.mem_cons] at hc
          rcases hc with rfl | hc
          · simp only; rw [hZ _ _ _ hd]; exact Nat.le_refl _
          · exact h.2 c hc
        · exact h
    · exact h

theorem afterContainerRead_inv (Z : Zlib) (hZ : ZOK Z) (cap : Nat) (cs cs' : CState) (r : St) (h : CInv cs)
    (hs : afterContainerRead Z cap cs r = some cs') : CInv cs' := by
  unfold afterContainerRead at hs
  by_cases h1 : r.halt = .badAlloc
  · rw [if_pos h1] at hs; injection hs with hs; subst hs; exact h
  rw [if_neg h1] at hs
  by_cases h2 : r.halt ≠ .none
  · rw [if_pos h2] at hs; cases hs
  rw [if_neg h2] at hs
  by_cases h3 : (!r.good) = true
  · rw [if_pos h3] at hs; cases hs
  rw [if_neg h3] at hs
  injection hs with hs; subst hs; exact pushContainer_inv Z hZ cap cs r h

theorem containerStep_inv (Z : Zlib) (hZ : ZOK Z) (cap : Nat) (cs cs' : CState) (h : CInv cs)
    (hs : containerStep Z cap cs = some cs') : CInv cs' := by
  unfold containerStep at hs
  generalize Gen.ObjectHeaderBase.readProg.exec (stickyCfg cap) { cs.st with obj := Gen.ObjectHeaderBase.fresh, halt := .none } = hd at hs
  unfold afterContainerHeader at hs
  by_cases h1 : hd.halt ≠ .none
  · rw [if_pos h1] at hs; cases hs
  rw [if_neg h1] at hs
  by_cases h2 : (!hd.good) = true
  · rw [if_pos h2] at hs; cases hs
  rw [if_neg h2] at hs
  by_cases h3 : hd.obj.num 4 ≠ 10
  · rw [if_pos h3] at hs; cases hs
  rw [if_neg h3] at hs
  exact afterContainerRead_inv Z hZ cap cs cs' _ h hs

theorem containerLoop_inv (Z : Zlib) (hZ : ZOK Z) (cap : Nat) : ∀ (fuel : Nat) (cs : CState), CInv cs →
    CInv (containerLoop Z cap fuel cs) := by
  intro fuel
  induction fuel with
  | zero => intro cs h; exact h
  | succ n ih =>
    intro cs h
    unfold containerLoop
    cases hs : containerStep Z cap cs with
    | none => exact h
    | some cs' =>
      have h' := containerStep_inv Z hZ cap cs cs' h hs
      simp only
      split
      · exact h'
      · split
        · exact h'
        · exact ih cs' h'

theorem flattenConts_some : ∀ (l : List RCont), (∀ c ∈ l, c.size ≤ c.data.length) → ∃ B, flattenConts l = some B := by
  intro l
  induction l with
  | nil => intro _; exact ⟨[], rfl⟩
  | cons c l ih =>
    intro h
    obtain ⟨B, hB⟩ := ih (fun d hd => h d (by simp [hd]))
    have hc := h c (by simp)
    refine ⟨c.data.take c.size ++ B, ?_⟩
    unfold flattenConts
    rw [if_neg (by omega), hB]

/-! ### the read session -/

/-- **C10 core**: for every byte string whatsoever, every allocation cap and every zlib satisfying `ZOK`, a read session
    (open, read until null, close) ends, and it ends without an undefined memory access: the outcome is `ended` or the
    exception of `open` -/
theorem readFile_outcome (Z : Zlib) (hZ : ZOK Z) (cap : Nat) (file : Bytes) :
    (readFile Z cap file).outcome = .ended ∨ (readFile Z cap file).outcome = .openException := by
  unfold readFile
  dsimp only
  split
  · exact Or.inr rfl
  · left
    generalize statsReadRest.exec (stickyCfg cap) ((Stmt.rd 0 4).exec (stickyCfg cap) { obj := statsDefault, inp := file }) = s2
    unfold readAfterHeader
    dsimp only
    have hinv := containerLoop_inv Z hZ cap (file.length + 2) { st := s2, usize := s2.obj.num 1 }
      ⟨rfl, by intro c hc; cases hc⟩
    generalize containerLoop Z cap (file.length + 2) _ = cs at hinv ⊢
    rw [hinv.1]
    simp only [Bool.false_eq_true, if_false]
    obtain ⟨B, hB⟩ := flattenConts_some cs.conts.reverse (fun c hc => hinv.2 c (by simpa using hc))
    rw [hB]
    simp only [parseStream]
    rw [objectLoop_outcome cap (4 * B.length + 64) { st := { obj := statsDefault, inp := B } } rfl (by simp) (by simp; omega)]
    rfl

theorem readFile_no_oob (Z : Zlib) (hZ : ZOK Z) (cap : Nat) (file : Bytes) : (readFile Z cap file).outcome ≠ .oob := by
  rcases readFile_outcome Z hZ cap file with h | h <;> rw [h] <;> simp

theorem readFile_no_hang (Z : Zlib) (hZ : ZOK Z) (cap : Nat) (file : Bytes) : (readFile Z cap file).outcome ≠ .hang := by
  rcases readFile_outcome Z hZ cap file with h | h <;> rw [h] <;> simp

end Blf.FileSafe
