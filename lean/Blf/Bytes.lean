/-!
# Bytes: little-endian encoding of unsigned integers

`Bytes := List UInt8`.  `leBytes w v` is the `w`-byte little-endian image of `v % 256^w`,
`leVal bs` the value of a little-endian byte string.  Doubles, enums and SYSTEMTIME are raw
bytes in this model; floating point is never interpreted.
-/
namespace Blf

abbrev Bytes := List UInt8

def leBytes : Nat → Nat → Bytes
  | 0, _ => []
  | w+1, v => (UInt8.ofNat (v % 256)) :: leBytes w (v / 256)

def leVal : Bytes → Nat
  | [] => 0
  | b :: bs => b.toNat + 256 * leVal bs

def zeros (n : Nat) : Bytes := List.replicate n 0

@[simp] theorem leBytes_length (w v : Nat) : (leBytes w v).length = w := by
  induction w generalizing v with
  | zero => rfl
  | succ w ih => simp [leBytes, ih]

@[simp] theorem zeros_length (n : Nat) : (zeros n).length = n := by simp [zeros]

theorem leVal_leBytes (w v : Nat) : leVal (leBytes w v) = v % 256 ^ w := by
  induction w generalizing v with
  | zero => simp [leBytes, leVal, Nat.mod_one]
  | succ w ih =>
    simp only [leBytes, leVal, ih]
    have h : (UInt8.ofNat (v % 256)).toNat = v % 256 := by
      simp [UInt8.toNat_ofNat']
    rw [h, Nat.pow_succ, Nat.mul_comm (256 ^ w) 256, Nat.mod_mul]

theorem leVal_lt (bs : Bytes) : leVal bs < 256 ^ bs.length := by
  induction bs with
  | nil => simp [leVal]
  | cons b bs ih =>
    simp only [leVal, List.length_cons, Nat.pow_succ]
    have hb : b.toNat < 256 := by
      have := b.toNat_lt; simpa using this
    omega

theorem leBytes_leVal (bs : Bytes) : leBytes bs.length (leVal bs) = bs := by
  induction bs with
  | nil => rfl
  | cons b bs ih =>
    simp only [List.length_cons, leBytes, leVal]
    have hb : b.toNat < 256 := by
      have := b.toNat_lt; simpa using this
    have h1 : (b.toNat + 256 * leVal bs) % 256 = b.toNat := by omega
    have h2 : (b.toNat + 256 * leVal bs) / 256 = leVal bs := by omega
    rw [h1, h2, ih]
    congr 1
    apply UInt8.toNat_inj.mp
    simp [UInt8.toNat_ofNat', Nat.mod_eq_of_lt hb]

theorem leVal_leBytes_of_lt {w v : Nat} (h : v < 256 ^ w) : leVal (leBytes w v) = v := by
  rw [leVal_leBytes, Nat.mod_eq_of_lt h]

/-- `leBytes` only depends on the value modulo `256^w`. -/
theorem leBytes_mod (w v : Nat) : leBytes w (v % 256 ^ w) = leBytes w v := by
  have h := leBytes_leVal (leBytes w v)
  rw [leBytes_length, leVal_leBytes] at h
  exact h

end Blf
