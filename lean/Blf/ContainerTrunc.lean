import Blf.ContainerRound
import Blf.TruncRound
/-!
# A compressed file cut off inside a log container  (C08, container level)

`containerStep_cut`: the file ends inside the header or the stored bytes of a container: the inflater hands nothing of it to
the in-memory stream and its loop ends.  `containerStep_tail`: only the padding behind a container is cut: the container is
complete and is handed over.  `containerLoop_prefix`: on any prefix of a sequence of containers the inflater hands over
exactly the containers whose header and stored bytes are completely inside the prefix.
-/
namespace Blf.ContainerTrunc
open Blf Blf.FileSeq Blf.FileRound Blf.ContainerRound Blf.TruncRound

/-- what a failed or short run on the in-memory stream means for the same run on the sticky stream -/
theorem sticky_bad_of (cfg : Cfg) (hs : cfg.sticky = false) (s : Stmt) (st : St) (h : StreamOK st)
    (hb : (s.exec cfg st).short = true ∨ (s.exec cfg st).halt ≠ .none) :
    (s.exec cfg.asSticky st).halt ≠ .none ∨ (s.exec cfg.asSticky st).good = false := by
  cases hsh : (s.exec cfg st).short with
  | true => exact Or.inr (exec_sticky_short_not_good cfg hs s st h hsh)
  | false =>
    rcases hb with hb | hb
    · rw [hsh] at hb; cases hb
    · rw [(exec_sticky cfg hs s st h hsh).1]; exact Or.inl hb

/-- the base header in a stream that ends before its sixteenth byte: short, or an exception -/
theorem hdr_cut (cfg : Cfg) (hs : cfg.sticky = false) (ow : Obj) (X : Bytes) (st : St) (hok : StreamOK st) (h0 : st.halt = .none)
    (hwf4 : ItemsWF ow hdr4) (hsig : ow.num 0 = SIG) (m : Nat) (hm : m < 16)
    (hin : st.inp.drop st.pos = (leBytes 4 SIG ++ encItems ow hdr4 ++ X).take m) :
    ((Stmt.block (.sync 0 :: canonRd hdr4)).exec cfg st).short = true ∨
    ((Stmt.block (.sync 0 :: canonRd hdr4)).exec cfg st).halt ≠ .none := by
  have hl4 : (leBytes 4 SIG).length = 4 := by simp
  have hlen4 : (encItems ow hdr4).length = 12 := by rw [encItems_length _ _ hwf4]; rfl
  have hlenT : st.inp.length - st.pos ≤ m := by
    have := congrArg List.length hin
    simp only [List.length_drop, List.length_take] at this
    omega
  rw [exec_block_cons]
  by_cases hm4 : m < 4
  · have hsf := sync_short_flag cfg hs 0 st (by have := hok.pos; omega)
    left
    split
    · exact block_short_mono _ _ _ hsf
    · exact hsf
  · have hT : st.inp.drop st.pos = leBytes 4 SIG ++ (encItems ow hdr4).take (m - 4) := by
      rw [hin, List.append_assoc, List.take_append, hl4]
      rw [List.take_of_length_le (by omega : (leBytes 4 SIG).length ≤ m)]
      congr 1
      rw [List.take_append_of_le_length (by omega)]
    have hlen : st.pos + 4 ≤ st.inp.length := by
      have := congrArg List.length hT
      simp only [List.length_drop, List.length_append, hl4] at this
      omega
    rw [exec_sync_at_sig cfg hs 0 st hlen (by rw [hT]; exact (take_append_len _ _ 4 hl4).1)]
    rw [if_pos (by exact h0)]
    have hdrop : st.inp.drop (st.pos + 4) = (encItems ow hdr4).take (m - 4) := by
      rw [← List.drop_drop, hT]; exact (take_append_len _ _ 4 hl4).2
    have hag : Agree [0] [] (st.obj.setNum 0 SIG) ow := by
      refine ⟨fun g hg => ?_, fun g hg => by simp at hg⟩
      simp only [List.mem_singleton] at hg; subst hg; simp [hsig]
    have hdt := dec_trunc cfg.cap hdr4 [0] [] ow (st.obj.setNum 0 SIG) (m - 4) (by decide) (by decide)
      hwf4 hag (by intro f ew len h; simp [hdr4] at h) (by omega)
    have hrd := exec_canonRd cfg hs hdr4 [0] []
      { st with obj := st.obj.setNum 0 SIG, pos := st.pos + 4, good := true, eof := false }
      (by decide) h0 (by simp only; omega) (by intro f n h; simp [hdr4] at h)
    simp only [hdrop] at hrd
    rw [hdt] at hrd
    exact hrd

/-- the container decoder on a stream that ends inside the container's header or stored bytes: short, or `bad_alloc` / out of
    bounds (the latter is excluded separately) -/
theorem lc_short (cfg : Cfg) (hs : cfg.sticky = false) (o : Obj) (h : LcOK o) (hcap : (o.buf 10).length ≤ cfg.cap)
    (st : St) (hok : StreamOK st) (h0 : st.halt = .none) (m : Nat) (hm : m < 32 + (o.buf 10).length)
    (hin : st.inp.drop st.pos = (leBytes 4 SIG ++ encItems (lcPre o) (L9 ++ T2)).take m) :
    (Gen.LogContainer.readProg.exec cfg st).short = true ∨ (Gen.LogContainer.readProg.exec cfg st).halt ≠ .none := by
  obtain ⟨h12, h1, h3, hr⟩ := lcPre_num o h.size
  have hwf := lcPre_wf o h
  have hwf9 := ((itemsWF_append _ _ _).1 hwf).1
  have hwf2 := ((itemsWF_append _ _ _).1 hwf).2
  have hsig : (lcPre o).num 0 = SIG := by rw [hr 0 (by decide) (by decide) (by decide)]; exact h.sig
  have hl4 : (leBytes 4 SIG).length = 4 := by simp
  have hl9 : (encItems (lcPre o) L9).length = 28 := by rw [encItems_length _ _ hwf9]; simp [L9, hdr4, itemsSize, Item.size]
  have hlD : (encItems (lcPre o) [Item.var 10 1 12]).length = (o.buf 10).length := by
    simp [encItems, encItem, h12, lcPre_buf]
  rw [lc_rd, exec_block_append cfg _ _ st h0]
  by_cases hm32 : m < 32
  · -- the cut is inside the 32 header bytes
    have hcut : ((Stmt.block (.sync 0 :: canonRd L9)).exec cfg st).short = true ∨
        ((Stmt.block (.sync 0 :: canonRd L9)).exec cfg st).halt ≠ .none := by
      rw [exec_block_cons]
      by_cases hm4 : m < 4
      · have hlenT : st.inp.length - st.pos ≤ m := by
          have := congrArg List.length hin
          simp only [List.length_drop, List.length_take] at this
          omega
        have hsf := sync_short_flag cfg hs 0 st (by have := hok.pos; omega)
        left
        split
        · exact block_short_mono _ _ _ hsf
        · exact hsf
      · have hT : st.inp.drop st.pos = leBytes 4 SIG ++ (encItems (lcPre o) L9).take (m - 4) := by
          rw [hin, encItems_append, List.take_append, hl4]
          rw [List.take_of_length_le (by omega : (leBytes 4 SIG).length ≤ m)]
          congr 1
          rw [List.take_append_of_le_length (by omega)]
        have hlen : st.pos + 4 ≤ st.inp.length := by
          have := congrArg List.length hT
          simp only [List.length_drop, List.length_append, hl4] at this
          omega
        rw [exec_sync_at_sig cfg hs 0 st hlen (by rw [hT]; exact (take_append_len _ _ 4 hl4).1)]
        rw [if_pos (by exact h0)]
        have hdrop : st.inp.drop (st.pos + 4) = (encItems (lcPre o) L9).take (m - 4) := by
          rw [← List.drop_drop, hT]; exact (take_append_len _ _ 4 hl4).2
        have hag : Agree [0] [] (st.obj.setNum 0 SIG) (lcPre o) := by
          refine ⟨fun g hg => ?_, fun g hg => by simp at hg⟩
          simp only [List.mem_singleton] at hg; subst hg; simp [hsig]
        have hdt := dec_trunc cfg.cap L9 [0] [] (lcPre o) (st.obj.setNum 0 SIG) (m - 4) (by decide) (by decide)
          hwf9 hag (by intro f ew len h; simp [L9, hdr4] at h) (by omega)
        have hrd := exec_canonRd cfg hs L9 [0] []
          { st with obj := st.obj.setNum 0 SIG, pos := st.pos + 4, good := true, eof := false }
          (by decide) h0 (by simp only; omega) (by intro f n h; simp [L9, hdr4] at h)
        simp only [hdrop] at hrd
        rw [hdt] at hrd
        exact hrd
    split
    · rcases hcut with hc | hc
      · exact Or.inl (block_short_mono _ _ _ hc)
      · next hh => exact absurd hh hc
    · next hh => exact Or.inr hh
  · -- the header is complete, the stored bytes are cut
    have hin1 : st.inp.drop st.pos = leBytes 4 SIG ++ encItems (lcPre o) L9 ++ (encItems (lcPre o) [Item.var 10 1 12]).take (m - 32) := by
      rw [hin, encItems_append, ← List.append_assoc, List.take_append]
      have hl : (leBytes 4 SIG ++ encItems (lcPre o) L9).length = 32 := by simp [hl9]
      rw [hl, List.take_of_length_le (by omega)]
      congr 1
      simp only [T2]
      have : encItems (lcPre o) [Item.var 10 1 12, Item.pad 3 4] =
          encItems (lcPre o) [Item.var 10 1 12] ++ encItems (lcPre o) [Item.pad 3 4] := by
        simp [encItems]
      rw [this, List.take_append_of_le_length (by omega)]
    obtain ⟨a1, a2, a3, a4, a5, a6⟩ := syncRd_at cfg hs L9 0 (lcPre o) st _
      (by decide) hwf9 hsig (by intro f n hm; simp [L9, hdr4] at hm) (by intro f ew len hm; simp [L9, hdr4] at hm) h0 hin1
    rw [if_pos a1]
    generalize (Stmt.block (.sync 0 :: canonRd L9)).exec cfg st = r1 at a1 a2 a3 a4 a5 a6
    rw [exec_block_cons]
    have hassign : (Stmt.assign 12 (.sub 4 (.fld 3) (.const 32))).exec cfg r1 =
        { r1 with obj := r1.obj.setNum 12 ((Expr.sub 4 (.fld 3) (.const 32)).eval r1.obj) } := rfl
    rw [hassign, if_pos (by exact a1)]
    have hn3 : r1.obj.num 3 = 32 + (o.buf 10).length := by
      rw [a6.1 3 (by simp [L9, hdr4, Item.numDef]), h3]
    have hsub : (Expr.sub 4 (.fld 3) (.const 32)).eval r1.obj = (o.buf 10).length := by
      have := h.size
      have hM : (256 : Nat) ^ 4 = 4294967296 := by decide
      simp only [Expr.eval, hn3, hM] at this ⊢
      omega
    rw [hsub]
    have hpos1 : r1.pos ≤ r1.inp.length := by
      have := congrArg List.length hin1
      simp only [List.length_drop, List.length_append, leBytes_length, hl9] at this
      rw [a3, a5, hl9]; omega
    have hdrop2 : r1.inp.drop r1.pos = (encItems (lcPre o) [Item.var 10 1 12]).take (m - 32) := by
      rw [a3, a5, Nat.add_assoc, ← List.drop_drop, hin1, hl9]
      have hl : (leBytes 4 SIG ++ encItems (lcPre o) L9).length = 4 + 28 := by simp [hl9]
      exact (take_append_len _ _ (4 + 28) hl).2
    have hag2 : Agree [12, 3] [] (r1.obj.setNum 12 (o.buf 10).length) (lcPre o) := by
      refine ⟨?_, by intro g hg; simp at hg⟩
      intro g hg
      simp only [List.mem_cons, List.mem_singleton, List.not_mem_nil, or_false] at hg
      rcases hg with rfl | rfl
      · simp [h12]
      · simp only [Obj.setNum_num_ne _ _ (show (3 : Nat) ≠ 12 by decide)]; rw [hn3, h3]
    have hdt := dec_trunc cfg.cap [Item.var 10 1 12] [12, 3] [] (lcPre o) (r1.obj.setNum 12 (o.buf 10).length) (m - 32)
      (by decide) (by decide) ⟨hwf2.1, trivial⟩ hag2
      (by intro f ew len hm
          simp only [List.mem_singleton, Item.var.injEq] at hm
          obtain ⟨rfl, rfl, rfl⟩ := hm
          rw [h12]; simpa using hcap)
      (by omega)
    have hdec : decItems cfg.cap T2 (r1.obj.setNum 12 (o.buf 10).length)
        ((encItems (lcPre o) [Item.var 10 1 12]).take (m - 32)) = none := by
      show decItems cfg.cap ([Item.var 10 1 12] ++ [Item.pad 3 4]) _ _ = none
      rw [decItems_append, hdt]
    have hrd := exec_canonRd cfg hs T2 [12, 3] []
      { r1 with obj := r1.obj.setNum 12 (o.buf 10).length } (by decide) a1 hpos1 (by intro f n h; simp [T2] at h)
    simp only [hdrop2] at hrd
    rw [hdec] at hrd
    exact hrd

/-- **the file ends inside the header or the stored bytes of a container**: nothing of it reaches the in-memory stream -/
theorem containerStep_cut (Z : Zlib) (cap level : Nat) (payload : Bytes) (cs : CState)
    (hp : payload.length < 256 ^ 4) (hd : (stored Z level payload).length + 32 < 256 ^ 4)
    (hc2 : (stored Z level payload).length ≤ cap) (hok : StreamOK cs.st)
    (m : Nat) (hm : m < 32 + (stored Z level payload).length)
    (hin : cs.st.inp.drop cs.st.pos = (encodeContainer Z cap level payload).take m) :
    containerStep Z cap cs = none ∨
    ∃ cs', containerStep Z cap cs = some cs' ∧ cs'.stop = true ∧ cs'.conts = cs.conts ∧ cs'.died = cs.died := by
  have hs : (memCfg cap).sticky = false := rfl
  obtain ⟨f10, f8, f5, f0, f2, f4, f6, f7, f9⟩ := containerObj_facts Z level payload
  have hlc := containerObj_ok Z level payload hp hd
  obtain ⟨_, henc⟩ := lc_encode (memCfg cap) (containerObj Z level payload) hlc
  have henc' : encodeContainer Z cap level payload =
      leBytes 4 SIG ++ encItems (lcPre (containerObj Z level payload)) (L9 ++ T2) := henc
  obtain ⟨h12, h1, h3, hr⟩ := lcPre_num (containerObj Z level payload) hlc.size
  have hwf := lcPre_wf (containerObj Z level payload) hlc
  have hwf4 : ItemsWF (lcPre (containerObj Z level payload)) hdr4 := by
    have := ((itemsWF_append _ _ _).1 hwf).1
    unfold L9 at this
    exact ((itemsWF_append _ _ _).1 this).1
  have hsig : (lcPre (containerObj Z level payload)).num 0 = SIG := by
    rw [hr 0 (by decide) (by decide) (by decide)]; exact f0
  have hlen4 : (encItems (lcPre (containerObj Z level payload)) hdr4).length = 12 := by
    rw [encItems_length _ _ hwf4]; rfl
  have hl4 : (leBytes 4 SIG).length = 4 := by simp
  have hok1 : StreamOK ({ cs.st with obj := Gen.ObjectHeaderBase.fresh, halt := Halt.none } : St) :=
    ⟨hok.good, hok.eof, hok.pos, hok.short⟩
  have hsplit : leBytes 4 SIG ++ encItems (lcPre (containerObj Z level payload)) (L9 ++ T2) =
      leBytes 4 SIG ++ encItems (lcPre (containerObj Z level payload)) hdr4 ++
        encItems (lcPre (containerObj Z level payload)) ([.scalar 5 2, .scalar 6 2, .scalar 7 4, .scalar 8 4, .scalar 9 4] ++ T2) := by
    simp only [L9, encItems_append, List.append_assoc]
  unfold containerStep
  rw [stickyCfg_eq, FileRound.ohb_prog]
  by_cases hm16 : m < 16
  · -- the base header is cut
    left
    have hb := hdr_cut (memCfg cap) hs (lcPre (containerObj Z level payload)) _
      { cs.st with obj := Gen.ObjectHeaderBase.fresh, halt := Halt.none } hok1 rfl hwf4 hsig m hm16
      (by show cs.st.inp.drop cs.st.pos = _; rw [hin, henc', hsplit])
    have hbad := sticky_bad_of (memCfg cap) hs _ _ hok1 hb
    unfold afterContainerHeader
    by_cases hh : ((Stmt.block (.sync 0 :: canonRd hdr4)).exec (memCfg cap).asSticky
        { cs.st with obj := Gen.ObjectHeaderBase.fresh, halt := Halt.none }).halt ≠ .none
    · rw [if_pos hh]
    · rw [if_neg hh]
      rcases hbad with hbad | hbad
      · exact absurd hbad hh
      · rw [if_pos (by simp [hbad])]
  · -- the base header is complete: the container decoder runs into the end of the file
    have hin1 : ({ cs.st with obj := Gen.ObjectHeaderBase.fresh, halt := Halt.none } : St).inp.drop
        ({ cs.st with obj := Gen.ObjectHeaderBase.fresh, halt := Halt.none } : St).pos =
        leBytes 4 SIG ++ encItems (lcPre (containerObj Z level payload)) hdr4 ++
          (encItems (lcPre (containerObj Z level payload)) ([.scalar 5 2, .scalar 6 2, .scalar 7 4, .scalar 8 4, .scalar 9 4] ++ T2)).take (m - 16) := by
      show cs.st.inp.drop cs.st.pos = _
      rw [hin, henc', hsplit, List.take_append]
      have hl : (leBytes 4 SIG ++ encItems (lcPre (containerObj Z level payload)) hdr4).length = 16 := by simp [hlen4]
      rw [hl, List.take_of_length_le (by omega)]
    obtain ⟨a1, a2, a3, a4, a5, a6⟩ := syncRd_at (memCfg cap) hs hdr4 0 (lcPre (containerObj Z level payload))
      { cs.st with obj := Gen.ObjectHeaderBase.fresh, halt := Halt.none } _
      (by decide) hwf4 hsig (by intro f n h; simp [hdr4] at h) (by intro f ew len h; simp [hdr4] at h) rfl hin1
    obtain ⟨e1, hgood⟩ := exec_sticky (memCfg cap) hs _ _ hok1 (by rw [a2]; exact hok.short)
    rw [e1]
    generalize (Stmt.block (.sync 0 :: canonRd hdr4)).exec (memCfg cap) { cs.st with obj := Gen.ObjectHeaderBase.fresh, halt := Halt.none } = hdS
      at a1 a2 a3 a4 a5 a6 hgood
    simp only at a2 a3 a4 a5
    have hty : hdS.obj.num 4 = 10 := by
      rw [a6.1 4 (by simp [hdr4, Item.numDef]), hr 4 (by decide) (by decide) (by decide)]; exact f4
    unfold afterContainerHeader
    rw [if_neg (by simp [a1]), if_neg (by simp [hgood.good]), if_neg (by simp [hty])]
    have hpos1 : (hdS.sback 16).pos = cs.st.pos := by simp only [St.sback]; rw [a5, hlen4]; omega
    have hok2 : StreamOK ({ hdS.sback 16 with obj := Gen.LogContainer.fresh, halt := Halt.none } : St) :=
      ⟨hgood.good, hgood.eof, by simp only [hpos1]; show cs.st.pos ≤ hdS.inp.length; rw [a3]; exact hok.pos, hgood.short⟩
    have hin2 : ({ hdS.sback 16 with obj := Gen.LogContainer.fresh, halt := Halt.none } : St).inp.drop
        ({ hdS.sback 16 with obj := Gen.LogContainer.fresh, halt := Halt.none } : St).pos =
        (leBytes 4 SIG ++ encItems (lcPre (containerObj Z level payload)) (L9 ++ T2)).take m := by
      simp only [hpos1]
      show hdS.inp.drop cs.st.pos = _
      rw [a3]; show cs.st.inp.drop cs.st.pos = _
      rw [hin, henc']
    have hb := lc_short (memCfg cap) hs (containerObj Z level payload) hlc (by rw [f10]; exact hc2)
      { hdS.sback 16 with obj := Gen.LogContainer.fresh, halt := Halt.none } hok2 rfl m (by rw [f10]; exact hm) hin2
    have hbad := sticky_bad_of (memCfg cap) hs _ _ hok2 hb
    rw [stickyCfg_eq]
    generalize Gen.LogContainer.readProg.exec (memCfg cap).asSticky { hdS.sback 16 with obj := Gen.LogContainer.fresh, halt := Halt.none } = r
      at hbad
    unfold afterContainerRead
    by_cases h1 : r.halt = .badAlloc
    · right
      rw [if_pos h1]
      exact ⟨_, rfl, rfl, rfl, rfl⟩
    · left
      rw [if_neg h1]
      by_cases h2 : r.halt ≠ .none
      · rw [if_pos h2]
      · rw [if_neg h2]
        rcases hbad with hbad | hbad
        · exact absurd hbad h2
        · rw [if_pos (by simp [hbad])]

/-- the container decoder where only the padding behind the stored bytes is cut (the stream ends there) -/
theorem lc_decode_tail (cfg : Cfg) (hs : cfg.sticky = false) (o : Obj) (h : LcOK o) (hcap : (o.buf 10).length ≤ cfg.cap)
    (st : St) (z : Bytes) (h0 : st.halt = .none) (hz : z.length ≤ (32 + (o.buf 10).length) % 4)
    (hin : st.inp.drop st.pos = leBytes 4 SIG ++ encItems (lcPre o) (L9 ++ [Item.var 10 1 12]) ++ z) :
    (Gen.LogContainer.readProg.exec cfg st).halt = .none ∧
    (Gen.LogContainer.readProg.exec cfg st).short = st.short ∧
    (Gen.LogContainer.readProg.exec cfg st).inp = st.inp ∧
    (Gen.LogContainer.readProg.exec cfg st).pos = st.inp.length ∧
    (Gen.LogContainer.readProg.exec cfg st).obj.num 5 = o.num 5 ∧
    (Gen.LogContainer.readProg.exec cfg st).obj.num 8 = o.num 8 ∧
    (Gen.LogContainer.readProg.exec cfg st).obj.buf 10 = o.buf 10 := by
  obtain ⟨h12, h1, h3, hr⟩ := lcPre_num o h.size
  have hwf := lcPre_wf o h
  have hwf9 := ((itemsWF_append _ _ _).1 hwf).1
  have hwf2 := ((itemsWF_append _ _ _).1 hwf).2
  have hwfv : ItemsWF (lcPre o) [Item.var 10 1 12] := ⟨hwf2.1, trivial⟩
  have hsig : (lcPre o).num 0 = SIG := by rw [hr 0 (by decide) (by decide) (by decide)]; exact h.sig
  rw [lc_rd, exec_block_append cfg _ _ st h0]
  have hin1 : st.inp.drop st.pos = leBytes 4 SIG ++ encItems (lcPre o) L9 ++ (encItems (lcPre o) [Item.var 10 1 12] ++ z) := by
    rw [hin, encItems_append]; simp only [List.append_assoc]
  obtain ⟨a1, a2, a3, a4, a5, a6⟩ := syncRd_at cfg hs L9 0 (lcPre o) st (encItems (lcPre o) [Item.var 10 1 12] ++ z)
    (by decide) hwf9 hsig (by intro f n hm; simp [L9, hdr4] at hm) (by intro f ew len hm; simp [L9, hdr4] at hm) h0 hin1
  rw [if_pos a1]
  generalize (Stmt.block (.sync 0 :: canonRd L9)).exec cfg st = r1 at a1 a2 a3 a4 a5 a6
  -- compressedFileSize := objectSize - 32
  rw [exec_block_cons]
  have hassign : (Stmt.assign 12 (.sub 4 (.fld 3) (.const 32))).exec cfg r1 =
      { r1 with obj := r1.obj.setNum 12 ((Expr.sub 4 (.fld 3) (.const 32)).eval r1.obj) } := rfl
  rw [hassign, if_pos (by exact a1)]
  have hn3 : r1.obj.num 3 = 32 + (o.buf 10).length := by
    rw [a6.1 3 (by simp [L9, hdr4, Item.numDef]), h3]
  have hsub : (Expr.sub 4 (.fld 3) (.const 32)).eval r1.obj = (o.buf 10).length := by
    have := h.size
    have hM : (256 : Nat) ^ 4 = 4294967296 := by decide
    simp only [Expr.eval, hn3, hM] at this ⊢
    omega
  rw [hsub]
  -- the stored data and the padding
  have hl9 : (encItems (lcPre o) L9).length = 28 := by rw [encItems_length _ _ hwf9]; simp [L9, hdr4, itemsSize, Item.size]
  have hpos1 : r1.pos ≤ r1.inp.length := by
    have := congrArg List.length hin1
    simp only [List.length_drop, List.length_append, leBytes_length, hl9] at this
    rw [a3, a5, hl9]; omega
  have hin2 : ({ r1 with obj := r1.obj.setNum 12 (o.buf 10).length } : St).inp.drop
      ({ r1 with obj := r1.obj.setNum 12 (o.buf 10).length } : St).pos = encItems (lcPre o) [Item.var 10 1 12] ++ z := by
    show r1.inp.drop r1.pos = _
    rw [a3, a5, Nat.add_assoc, ← List.drop_drop, hin1, hl9]
    have hl : (leBytes 4 SIG ++ encItems (lcPre o) L9).length = 4 + 28 := by simp [hl9]
    exact (take_append_len _ _ (4 + 28) hl).2
  -- canonRd T2 = the stored data, then the padding skip
  have hT2 : Stmt.block (canonRd T2) = Stmt.block (canonRd [Item.var 10 1 12] ++ [Stmt.seekg (.mod (.fld 3) (.const 4))]) := rfl
  rw [hT2, exec_block_append cfg _ _ _ (by exact a1)]
  obtain ⟨b1, b2, b3, b4, b5, b6, b7, _⟩ := canonRd_at cfg hs [Item.var 10 1 12] [12, 3] [] (lcPre o)
    { r1 with obj := r1.obj.setNum 12 (o.buf 10).length } z (by decide) hwfv
    ⟨by
      intro g hg
      simp only [List.mem_cons, List.mem_singleton, List.not_mem_nil, or_false] at hg
      rcases hg with rfl | rfl
      · simp [h12]
      · simp only [Obj.setNum_num_ne _ _ (show (3 : Nat) ≠ 12 by decide)]; rw [hn3, h3],
     by intro g hg; simp at hg⟩
    (by intro f n hm; simp at hm)
    (by intro f ew len hm
        simp only [List.mem_singleton, Item.var.injEq] at hm
        obtain ⟨rfl, rfl, rfl⟩ := hm
        rw [h12]; simpa using hcap)
    a1 hpos1 hin2
  rw [if_pos b1, TruncRound.exec_block_single]
  generalize (Stmt.block (canonRd [Item.var 10 1 12])).exec cfg { r1 with obj := r1.obj.setNum 12 (o.buf 10).length } = r2
    at b1 b2 b3 b4 b5 b6 b7
  simp only at b2 b3 b4 b5
  have hn3' : r2.obj.num 3 = 32 + (o.buf 10).length := by
    rw [b7 3 (by simp [Item.numDef])]
    simp only [Obj.setNum_num_ne _ _ (show (3 : Nat) ≠ 12 by decide)]; exact hn3
  have hseek : (Stmt.seekg (.mod (.fld 3) (.const 4))).exec cfg r2 = { r2 with pos := r2.inp.length } := by
    have hmin : min (r2.pos + (32 + (o.buf 10).length) % 4) r2.inp.length = r2.inp.length := by
      rw [b5, b3]
      have hle : z.length ≤ r1.inp.length := by
        have := congrArg List.length hin2
        simp only [List.length_drop, List.length_append] at this
        omega
      show min (r1.inp.length - z.length + (32 + (o.buf 10).length) % 4) r1.inp.length = r1.inp.length
      omega
    simp only [Stmt.exec, St.sseek, hs, Bool.false_and, Bool.false_eq_true, if_false, Expr.eval, hn3']
    rw [hmin]
  rw [hseek]
  refine ⟨b1, by rw [b2]; exact a2, by show r2.inp = _; rw [b3]; exact a3, by show r2.inp.length = _; rw [b3]; show r1.inp.length = _; rw [a3], ?_, ?_, ?_⟩
  · show r2.obj.num 5 = _
    rw [b7 5 (by simp [Item.numDef])]
    simp only [Obj.setNum_num_ne _ _ (show (5 : Nat) ≠ 12 by decide)]
    rw [a6.1 5 (by simp [L9, hdr4, Item.numDef]), hr 5 (by decide) (by decide) (by decide)]
  · show r2.obj.num 8 = _
    rw [b7 8 (by simp [Item.numDef])]
    simp only [Obj.setNum_num_ne _ _ (show (8 : Nat) ≠ 12 by decide)]
    rw [a6.1 8 (by simp [L9, hdr4, Item.numDef]), hr 8 (by decide) (by decide) (by decide)]
  · show r2.obj.buf 10 = _
    have := b6.2 10 (by simp [Item.bufDef])
    rw [this, lcPre_buf]


/-- **only the padding behind a container is cut**: the container is complete and is handed to the in-memory stream -/
theorem containerStep_tail (Z : Zlib) (hZ : ZRT Z) (cap level : Nat) (payload z : Bytes) (cs : CState)
    (hp : payload.length < 256 ^ 4) (hd : (stored Z level payload).length + 32 < 256 ^ 4)
    (hc1 : payload.length ≤ cap) (hc2 : (stored Z level payload).length ≤ cap)
    (hok : StreamOK cs.st) (hz : z.length ≤ (32 + (stored Z level payload).length) % 4)
    (hin : cs.st.inp.drop cs.st.pos = leBytes 4 SIG ++ encItems (lcPre (containerObj Z level payload)) (L9 ++ [Item.var 10 1 12]) ++ z) :
    ∃ cs', containerStep Z cap cs = some cs' ∧ StreamOK cs'.st ∧ cs'.st.inp = cs.st.inp ∧
      cs'.st.pos = cs.st.inp.length ∧
      cs'.conts = { size := payload.length, data := payload } :: cs.conts ∧
      cs'.usize = cs.usize + 32 + payload.length ∧ cs'.died = false ∧ cs'.stop = false := by
  have hs : (memCfg cap).sticky = false := rfl
  obtain ⟨f10, f8, f5, f0, f2, f4, f6, f7, f9⟩ := containerObj_facts Z level payload
  have hlc := containerObj_ok Z level payload hp hd
  obtain ⟨h12, h1, h3, hr⟩ := lcPre_num (containerObj Z level payload) hlc.size
  have hwf := lcPre_wf (containerObj Z level payload) hlc
  have hwf4 : ItemsWF (lcPre (containerObj Z level payload)) hdr4 := by
    have := ((itemsWF_append _ _ _).1 hwf).1
    unfold L9 at this
    exact ((itemsWF_append _ _ _).1 this).1
  have hsig : (lcPre (containerObj Z level payload)).num 0 = SIG := by
    rw [hr 0 (by decide) (by decide) (by decide)]; exact f0
  -- 1. the base header, read from the sticky stream
  have hin1 : ({ cs.st with obj := Gen.ObjectHeaderBase.fresh, halt := Halt.none } : St).inp.drop
      ({ cs.st with obj := Gen.ObjectHeaderBase.fresh, halt := Halt.none } : St).pos =
      leBytes 4 SIG ++ encItems (lcPre (containerObj Z level payload)) hdr4 ++
        (encItems (lcPre (containerObj Z level payload))
          ([.scalar 5 2, .scalar 6 2, .scalar 7 4, .scalar 8 4, .scalar 9 4] ++ [Item.var 10 1 12]) ++ z) := by
    show cs.st.inp.drop cs.st.pos = _
    rw [hin]
    simp only [L9, encItems_append, List.append_assoc]
  obtain ⟨a1, a2, a3, a4, a5, a6⟩ := syncRd_at (memCfg cap) hs hdr4 0 (lcPre (containerObj Z level payload))
    { cs.st with obj := Gen.ObjectHeaderBase.fresh, halt := Halt.none } _
    (by decide) hwf4 hsig (by intro f n h; simp [hdr4] at h) (by intro f ew len h; simp [hdr4] at h) rfl hin1
  have hok1 : StreamOK ({ cs.st with obj := Gen.ObjectHeaderBase.fresh, halt := Halt.none } : St) :=
    ⟨hok.good, hok.eof, hok.pos, hok.short⟩
  obtain ⟨e1, hgood⟩ := exec_sticky (memCfg cap) hs _ _ hok1 (by rw [a2]; exact hok.short)
  have hlen4 : (encItems (lcPre (containerObj Z level payload)) hdr4).length = 12 := by
    rw [encItems_length _ _ hwf4]; rfl
  unfold containerStep
  rw [stickyCfg_eq, ohb_prog, e1]
  generalize (Stmt.block (.sync 0 :: canonRd hdr4)).exec (memCfg cap) { cs.st with obj := Gen.ObjectHeaderBase.fresh, halt := Halt.none } = hdS
    at a1 a2 a3 a4 a5 a6 hgood
  simp only at a2 a3 a4 a5
  have hty : hdS.obj.num 4 = 10 := by
    rw [a6.1 4 (by simp [hdr4, Item.numDef]), hr 4 (by decide) (by decide) (by decide)]; exact f4
  unfold afterContainerHeader
  rw [if_neg (by simp [a1]), if_neg (by simp [hgood.good]), if_neg (by simp [hty])]
  -- 2. the container itself
  have hpos1 : (hdS.sback 16).pos = cs.st.pos := by simp only [St.sback]; rw [a5, hlen4]; omega
  have hin2 : ({ hdS.sback 16 with obj := Gen.LogContainer.fresh, halt := Halt.none } : St).inp.drop
      ({ hdS.sback 16 with obj := Gen.LogContainer.fresh, halt := Halt.none } : St).pos =
      leBytes 4 SIG ++ encItems (lcPre (containerObj Z level payload)) (L9 ++ [Item.var 10 1 12]) ++ z := by
    simp only [hpos1]
    show hdS.inp.drop cs.st.pos = _
    rw [a3]; show cs.st.inp.drop cs.st.pos = _
    rw [hin]
  obtain ⟨b1, b2, b3, b4, b5, b6, b7⟩ := lc_decode_tail (memCfg cap) hs (containerObj Z level payload) hlc
    (by rw [f10]; exact hc2) { hdS.sback 16 with obj := Gen.LogContainer.fresh, halt := Halt.none } z rfl (by rw [f10]; exact hz) hin2
  have hok2 : StreamOK ({ hdS.sback 16 with obj := Gen.LogContainer.fresh, halt := Halt.none } : St) :=
    ⟨hgood.good, hgood.eof, by simp only [hpos1]; show cs.st.pos ≤ hdS.inp.length; rw [a3]; exact hok.pos, hgood.short⟩
  obtain ⟨e2, hgood2⟩ := exec_sticky (memCfg cap) hs _ _ hok2 (by rw [b2]; exact hgood.short)
  rw [stickyCfg_eq, e2]
  generalize Gen.LogContainer.readProg.exec (memCfg cap) { hdS.sback 16 with obj := Gen.LogContainer.fresh, halt := Halt.none } = r
    at b1 b2 b3 b4 b5 b6 b7 hgood2
  simp only at b2 b3 b4
  unfold afterContainerRead
  rw [if_neg (by simp [b1]), if_neg (by simp [b1]), if_neg (by simp [hgood2.good])]
  have hinp : r.inp = cs.st.inp := by rw [b3]; show hdS.inp = _; rw [a3]
  -- 3. inflate or copy
  unfold pushContainer
  simp only
  rw [b5, b6, b7, f5, f8, f10]
  by_cases hl : level = 0
  · simp only [hl, if_true, stored]
    rw [if_neg (by simp)]
    exact ⟨_, rfl, hgood2, hinp, by simp only; rw [b4]; show hdS.inp.length = _; rw [a3], rfl, rfl, rfl, rfl⟩
  · simp only [hl, if_false, stored]
    have := hZ level payload
    simp only [if_true, if_neg (show ¬ cap < payload.length by omega), this, show ((2 : Nat) = 0) = False by simp, if_false]
    exact ⟨_, rfl, hgood2, hinp, by simp only; rw [b4]; show hdS.inp.length = _; rw [a3], rfl, rfl, rfl, rfl⟩


/-! ### any prefix of a sequence of containers -/

def cBody (Z : Zlib) (level : Nat) (p : Bytes) : Nat := 32 + (stored Z level p).length

/-- how many containers have header and stored bytes inside the first `m` bytes -/
def kOf (Z : Zlib) (cap level : Nat) : List Bytes → Nat → Nat
  | [], _ => 0
  | p :: l, m => if cBody Z level p ≤ m then 1 + kOf Z cap level l (m - (encodeContainer Z cap level p).length) else 0

theorem kOf_zero (Z : Zlib) (cap level : Nat) (l : List Bytes) : kOf Z cap level l 0 = 0 := by
  cases l with
  | nil => rfl
  | cons y l => simp [kOf, cBody]

theorem kOf_mono (Z : Zlib) (cap level : Nat) : ∀ (P : List Bytes) (m m' : Nat), m ≤ m' → kOf Z cap level P m ≤ kOf Z cap level P m' := by
  intro P
  induction P with
  | nil => intro m m' _; exact Nat.le_refl _
  | cons x l ih =>
    intro m m' h
    simp only [kOf]
    by_cases h1 : cBody Z level x ≤ m
    · rw [if_pos h1, if_pos (by omega)]
      have := ih (m - (encodeContainer Z cap level x).length) (m' - (encodeContainer Z cap level x).length) (by omega)
      omega
    · rw [if_neg h1]; exact Nat.zero_le _

theorem container_shape (Z : Zlib) (cap level : Nat) (p : Bytes) (h : PayloadOK Z cap level p) :
    encodeContainer Z cap level p = leBytes 4 SIG ++ encItems (lcPre (containerObj Z level p)) (L9 ++ [Item.var 10 1 12]) ++
      zeros ((32 + (stored Z level p).length) % 4) ∧
    (leBytes 4 SIG ++ encItems (lcPre (containerObj Z level p)) (L9 ++ [Item.var 10 1 12])).length = cBody Z level p := by
  have hlc := containerObj_ok Z level p h.len h.stored
  obtain ⟨_, henc⟩ := lc_encode (memCfg cap) (containerObj Z level p) hlc
  obtain ⟨f10, _⟩ := containerObj_facts Z level p
  obtain ⟨h12, h1, h3, hr⟩ := lcPre_num (containerObj Z level p) hlc.size
  have hwf := lcPre_wf (containerObj Z level p) hlc
  have hwf9 := ((itemsWF_append _ _ _).1 hwf).1
  have hl9 : (encItems (lcPre (containerObj Z level p)) L9).length = 28 := by
    rw [encItems_length _ _ hwf9]; simp [L9, hdr4, itemsSize, Item.size]
  constructor
  · show (Gen.LogContainer.encode (memCfg cap) (containerObj Z level p)).out = _
    rw [henc]
    simp only [T2, encItems_append, encItems, encItem, List.append_nil, List.append_assoc, h3, f10]
  · simp only [List.length_append, leBytes_length, encItems_append, hl9, encItems, encItem, List.append_nil,
      List.length_take, h12, lcPre_buf, f10, cBody]
    omega

/-- **the inflater on a file cut off anywhere behind the statistics block** -/
theorem containerLoop_prefix (Z : Zlib) (hZ : ZRT Z) (cap level : Nat) : ∀ (P : List Bytes),
    (∀ p ∈ P, PayloadOK Z cap level p) → ∀ (m : Nat) (cs : CState) (fuel : Nat), StreamOK cs.st → cs.died = false →
    cs.st.inp.drop cs.st.pos = (flattenB (P.map (encodeContainer Z cap level))).take m → kOf Z cap level P m + 1 < fuel →
    (containerLoop Z cap fuel cs).conts = (contsOf (P.take (kOf Z cap level P m))).reverse ++ cs.conts ∧
    (containerLoop Z cap fuel cs).died = false := by
  intro P
  induction P with
  | nil =>
    intro _ m cs fuel hok hdd hin hf
    obtain ⟨n, rfl⟩ : ∃ n, fuel = n + 1 := ⟨fuel - 1, by omega⟩
    have hend : cs.st.pos = cs.st.inp.length := by
      have := congrArg List.length hin
      simp [flattenB] at this
      have := hok.pos
      omega
    unfold containerLoop
    rw [containerStep_at_end Z cap cs hok.good hend]
    exact ⟨by simp [contsOf, kOf], hdd⟩
  | cons p l ih =>
    intro hP m cs fuel hok hdd hin hf
    obtain ⟨n, rfl⟩ : ∃ n, fuel = n + 1 := ⟨fuel - 1, by omega⟩
    have hp := hP p (by simp)
    obtain ⟨hshape, hlenB⟩ := container_shape Z cap level p hp
    have hlenE : (encodeContainer Z cap level p).length = cBody Z level p + (32 + (stored Z level p).length) % 4 := by
      have := congrArg List.length hshape
      rw [List.length_append, hlenB, zeros_length] at this
      exact this
    by_cases hfull : (encodeContainer Z cap level p).length ≤ m
    · have hin1 : cs.st.inp.drop cs.st.pos = encodeContainer Z cap level p ++
          (flattenB (l.map (encodeContainer Z cap level))).take (m - (encodeContainer Z cap level p).length) := by
        rw [hin]; simp only [List.map_cons, flattenB]
        rw [List.take_append, List.take_of_length_le hfull]
      obtain ⟨cs', hstep, hok', hinp, hpos, hconts, _, hdied, hstop⟩ :=
        containerStep_container Z hZ cap level p _ cs hp.len hp.stored hp.cap1 hp.cap2 hok hin1
      have hin' : cs'.st.inp.drop cs'.st.pos =
          (flattenB (l.map (encodeContainer Z cap level))).take (m - (encodeContainer Z cap level p).length) := by
        rw [hinp, hpos]
        have h1 := congrArg List.length hin1
        simp only [List.length_drop, List.length_append] at h1
        have h0 := hok.pos
        have h2 : cs.st.inp.length - ((flattenB (l.map (encodeContainer Z cap level))).take (m - (encodeContainer Z cap level p).length)).length =
            cs.st.pos + (encodeContainer Z cap level p).length := by omega
        rw [h2, ← List.drop_drop, hin1]; simp
      obtain ⟨h1, h2⟩ := ih (fun q hq => hP q (by simp [hq])) _ cs' n hok' hdied hin'
        (by simp only [kOf, if_pos (show cBody Z level p ≤ m by omega)] at hf; omega)
      unfold containerLoop
      rw [hstep]
      simp only [hdied, hstop, Bool.or_self, Bool.false_eq_true, if_false, hok'.good, Bool.not_true]
      refine ⟨?_, h2⟩
      rw [h1, hconts]
      simp only [kOf, if_pos (show cBody Z level p ≤ m by omega)]
      rw [Nat.add_comm, List.take_succ_cons]
      simp [contsOf]
    · by_cases hbody : cBody Z level p ≤ m
      · -- only the padding is cut
        have hin1 : cs.st.inp.drop cs.st.pos = leBytes 4 SIG ++ encItems (lcPre (containerObj Z level p)) (L9 ++ [Item.var 10 1 12]) ++
            zeros (m - cBody Z level p) := by
          rw [hin]; simp only [List.map_cons, flattenB]
          rw [List.take_append_of_le_length (by omega), hshape, List.take_append, hlenB, List.take_of_length_le (by omega)]
          congr 1
          simp [zeros, List.take_replicate]
          omega
        obtain ⟨cs', hstep, hok', hinp, hpos, hconts, _, hdied, hstop⟩ :=
          containerStep_tail Z hZ cap level p (zeros (m - cBody Z level p)) cs hp.len hp.stored hp.cap1 hp.cap2 hok
            (by simp [zeros_length]; omega) hin1
        obtain ⟨n', rfl⟩ : ∃ n', n = n' + 1 := ⟨n - 1, by simp only [kOf, if_pos hbody] at hf; omega⟩
        unfold containerLoop
        rw [hstep]
        simp only [hdied, hstop, Bool.or_self, Bool.false_eq_true, if_false, hok'.good, Bool.not_true]
        unfold containerLoop
        rw [containerStep_at_end Z cap cs' hok'.good (by rw [hpos, hinp])]
        refine ⟨?_, hdied⟩
        rw [hconts]
        simp only [kOf, if_pos hbody]
        have h0 : m - (encodeContainer Z cap level p).length = 0 := by omega
        rw [h0, kOf_zero, Nat.add_zero, List.take_succ_cons, List.take_zero]
        simp [contsOf]
      · -- the header or the stored bytes are cut
        have hcut := containerStep_cut Z cap level p cs hp.len hp.stored hp.cap2 hok m (by unfold cBody at hbody; omega)
          (by rw [hin]; simp only [List.map_cons, flattenB]; rw [List.take_append_of_le_length (by omega)])
        unfold containerLoop
        rcases hcut with hcut | ⟨cs', hstep, hstop, hconts, hdied⟩
        · rw [hcut]
          exact ⟨by simp [kOf, if_neg hbody, contsOf], hdd⟩
        · rw [hstep]
          simp only [hstop, Bool.or_true, if_true]
          exact ⟨by rw [hconts]; simp [kOf, if_neg hbody, contsOf], by rw [hdied]; exact hdd⟩

theorem kOf_le (Z : Zlib) (cap level : Nat) : ∀ (P : List Bytes), (∀ p ∈ P, PayloadOK Z cap level p) →
    ∀ (m : Nat), kOf Z cap level P m ≤ P.length ∧ kOf Z cap level P m ≤ m := by
  intro P
  induction P with
  | nil => intro _ m; simp [kOf]
  | cons p l ih =>
    intro hP m
    simp only [kOf]
    by_cases h : cBody Z level p ≤ m
    · rw [if_pos h]
      obtain ⟨h1, h2⟩ := ih (fun q hq => hP q (by simp [hq])) (m - (encodeContainer Z cap level p).length)
      obtain ⟨hshape, hlenB⟩ := container_shape Z cap level p (hP p (by simp))
      have hlenE : cBody Z level p ≤ (encodeContainer Z cap level p).length := by
        have := congrArg List.length hshape
        rw [List.length_append, hlenB] at this
        omega
      have h32 : 32 ≤ cBody Z level p := by unfold cBody; omega
      simp only [List.length_cons]
      constructor
      · omega
      · by_cases hc : (encodeContainer Z cap level p).length ≤ m
        · omega
        · have : m - (encodeContainer Z cap level p).length = 0 := by omega
          rw [this, kOf_zero]; omega
    · rw [if_neg h]; exact ⟨Nat.zero_le _, Nat.zero_le _⟩

end Blf.ContainerTrunc
