def hello := "world"
