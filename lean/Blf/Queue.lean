/-!
# ObjectQueue<T>: the object queue monitor (hand model; tie D `queue` protocol, guards tie T)

State mirrors the private members one to one.  Every public method of the C++ class is one critical
section: `guard` (the predicate of its `wait`, `true` if it does not wait) and a body.  Objects are
abstract ids (`Nat`).  Counters are unbounded here; the machine with the `uint32_t` counters of the code is `Blf/Queue32.lean`,
proved equal to this one for every history below 2^32 objects (`run32_eq_run`); the driver executes that one.
-/
namespace Blf.Queue

def U32MAX : Nat := 4294967295

structure State where
  abort : Bool := false
  queue : List Nat := []
  tellg : Nat := 0
  tellp : Nat := 0
  bufferSize : Nat := U32MAX
  fileSize : Nat := U32MAX
  good : Bool := true
  eof : Bool := false
  deriving Repr, DecidableEq

inductive Op where
  | read
  | write (x : Nat)
  | abort
  | setFileSize (n : Nat)
  | setBufferSize (n : Nat)
  deriving Repr, DecidableEq

/-- `tellpChanged.wait` predicate of `read`, `tellgChanged.wait` predicate of `write` -/
def guard (s : State) : Op → Bool
  | .read => s.abort || !s.queue.isEmpty || decide (s.tellg ≥ s.fileSize)
  | .write _ => s.abort || decide (s.queue.length < s.bufferSize)
  | _ => true

/-- condition variables notified by each method -/
inductive CV where | tellg | tellp
  deriving Repr, DecidableEq

def notifies : Op → List CV
  | .read => [.tellg]
  | .write _ => [.tellp]
  | .abort => [.tellg, .tellp]
  | .setFileSize _ => [.tellp]
  | .setBufferSize _ => []

def waitsOn : Op → Option CV
  | .read => some .tellp
  | .write _ => some .tellg
  | _ => none

/-- body of a method (executed with the guard true); result of `read` is `some (some x)` / `some none` -/
def step (s : State) : Op → State × Option (Option Nat)
  | .read =>
    match s.queue with
    | [] => ({ s with good := false, eof := true }, some none)
    | x :: q => ({ s with queue := q, good := true, eof := false, tellg := s.tellg + 1 }, some (some x))
  | .write x =>
    let tp := s.tellp + 1
    ({ s with queue := s.queue ++ [x], tellp := tp, fileSize := if tp > s.fileSize then tp else s.fileSize }, none)
  | .abort => ({ s with abort := true }, none)
  | .setFileSize n => ({ s with fileSize := n }, none)
  | .setBufferSize n => ({ s with bufferSize := n }, none)

/-- a history of non-blocking calls: each op is executed only if its guard holds, otherwise it is skipped
    (it would block; the single-threaded reference run never issues it) -/
def run (s : State) : List Op → State × List (Option Nat)
  | [] => (s, [])
  | op :: l =>
    if guard s op then
      let r := step s op
      let rest := run r.1 l
      match r.2 with
      | some v => (rest.1, v :: rest.2)
      | none => rest
    else run s l

/-- values passed to the writes that were executed -/
def written (s : State) : List Op → List Nat
  | [] => []
  | op :: l =>
    if guard s op then
      match op with
      | .write x => x :: written (step s op).1 l
      | _ => written (step s op).1 l
    else written s l

def delivered (outs : List (Option Nat)) : List Nat := outs.filterMap id

/-- **C16 (FIFO, exactly once)**: what the reads returned so far, followed by what is still queued, is
    exactly what was queued initially followed by what was written — for every operation sequence. -/
theorem fifo (s : State) (ops : List Op) :
    delivered (run s ops).2 ++ (run s ops).1.queue = s.queue ++ written s ops := by
  induction ops generalizing s with
  | nil => simp [run, written, delivered]
  | cons op l ih =>
    simp only [run, written]
    split
    · rename_i hg
      cases op with
      | read =>
        simp only [step]
        cases hq : s.queue with
        | nil =>
          simp only [hq]
          have := ih { s with good := false, eof := true }
          simp only [hq] at this
          simpa [delivered] using this
        | cons x q =>
          simp only [hq]
          have := ih { s with queue := q, good := true, eof := false, tellg := s.tellg + 1 }
          simp only at this
          simp only [delivered, List.filterMap_cons, id] at this ⊢
          simp [this]
      | write x =>
        simp only [step]
        have := ih { s with queue := s.queue ++ [x], tellp := s.tellp + 1,
                            fileSize := if s.tellp + 1 > s.fileSize then s.tellp + 1 else s.fileSize }
        simp only at this
        simp [this]
      | abort => simp only [step]; exact ih _
      | setFileSize n => simp only [step]; exact ih _
      | setBufferSize n => simp only [step]; exact ih _
    · exact ih s

/-- corollary: starting empty, the delivered values are a prefix of the written values, in order -/
theorem fifo_prefix (ops : List Op) :
    ∃ rest, written {} ops = delivered (run {} ops).2 ++ rest := by
  refine ⟨(run {} ops).1.queue, ?_⟩
  have := fifo {} ops
  simpa using this.symm

/-- position invariant: `tellp - tellg = queue length` -/
def Inv (s : State) : Prop := s.tellg + s.queue.length = s.tellp

theorem inv_step (s : State) (op : Op) (h : Inv s) : Inv (step s op).1 := by
  unfold Inv at *
  cases op with
  | read =>
    simp only [step]
    cases hq : s.queue with
    | nil => simp [hq] at h ⊢; exact h
    | cons x q => simp [hq] at h ⊢; omega
  | write x => simp [step]; omega
  | abort => simpa [step] using h
  | setFileSize n => simpa [step] using h
  | setBufferSize n => simpa [step] using h

theorem inv_run (s : State) (ops : List Op) (h : Inv s) : Inv (run s ops).1 := by
  induction ops generalizing s with
  | nil => simpa [run] using h
  | cons op l ih =>
    simp only [run]
    split
    · have := ih _ (inv_step s op h)
      cases hr : (step s op).2 <;> simp [hr] <;> exact this
    · exact ih s h

/-- **C16 (back-pressure)**: a writer is held back exactly while the queue is at capacity and not aborted -/
theorem backpressure (s : State) (x : Nat) :
    guard s (.write x) = false ↔ (s.abort = false ∧ s.bufferSize ≤ s.queue.length) := by
  simp [guard, Nat.not_lt]

/-- **C16 (end of stream)**: a `read` that is admitted returns null (and sets eof, clears good) only if the
    queue is empty and (the declared size has been consumed or abort was called); it never returns null
    while objects remain -/
theorem eos (s : State) (hg : guard s .read = true) :
    ((step s .read).2 = some none ↔ s.queue = []) ∧
    ((step s .read).2 = some none → (s.tellg ≥ s.fileSize ∨ s.abort = true) ∧
        (step s .read).1.eof = true ∧ (step s .read).1.good = false) := by
  cases hq : s.queue with
  | nil =>
    simp only [guard, hq, List.isEmpty_nil, Bool.not_true, Bool.or_false, Bool.or_eq_true, decide_eq_true_eq] at hg
    simp only [step, hq, true_and, forall_const, and_true]
    rcases hg with h | h
    · exact Or.inr h
    · exact Or.inl h
  | cons x q => simp [step, hq]

/-- a non-null read returns the front of the queue and leaves good set, eof cleared -/
theorem read_front (s : State) (x : Nat) (q : List Nat) (hq : s.queue = x :: q) :
    (step s .read).2 = some (some x) ∧ (step s .read).1.queue = q ∧
    (step s .read).1.good = true ∧ (step s .read).1.eof = false := by
  simp [step, hq]

/-- **C16 (abort releases every waiter)**: after `abort` every guard is true, and stays true under every
    further operation; `abort` notifies both condition variables, so every sleeper re-evaluates its guard -/
theorem abort_releases (s : State) (ops : List Op) (op : Op) :
    guard (run (step s .abort).1 ops).1 op = true := by
  have key : ∀ (t : State) (l : List Op), t.abort = true → (run t l).1.abort = true := by
    intro t l
    induction l generalizing t with
    | nil => intro h; simpa [run] using h
    | cons o l ih =>
      intro h
      simp only [run]
      split
      · have h' : (step t o).1.abort = true := by
          cases o <;> simp [step, h]
          cases t.queue <;> simp [h]
        have := ih _ h'
        cases hr : (step t o).2 <;> simp [hr] <;> exact this
      · exact ih t h
  have ha := key (step s .abort).1 ops (by simp [step])
  cases op <;> simp [guard, ha]

theorem abort_notifies_all : notifies .abort = [.tellg, .tellp] := rfl

/-- no lost wake-up (table level): every method whose body can turn another method's guard from false
    to true notifies the condition variable that method waits on.
    `read` shrinks the queue and advances tellg (can enable `write`: waits on tellg);
    `write` grows the queue (can enable `read`: waits on tellp);
    `setFileSize` changes fileSize (can enable `read`: waits on tellp); `abort` enables both. -/
theorem wakeups_complete :
    (CV.tellg ∈ notifies .read) ∧ (∀ x, CV.tellp ∈ notifies (.write x)) ∧
    (∀ n, CV.tellp ∈ notifies (.setFileSize n)) ∧ (CV.tellg ∈ notifies .abort ∧ CV.tellp ∈ notifies .abort) := by
  simp [notifies]

/-- ... and the ops that notify nothing cannot enable a waiting reader; `setBufferSize` is only called
    before the threads start (File::File) -/
theorem read_guard_stable_under_setBufferSize (s : State) (n : Nat) :
    guard (step s (.setBufferSize n)).1 .read = guard s .read := by
  simp [guard, step]

/-- non-vacuity: a queue at capacity 2 with a blocked producer -/
example : guard (run { bufferSize := 2 } [.write 7, .write 8]).1 (.write 9) = false ∧
    guard (run { bufferSize := 2 } [.write 7, .write 8]).1 .read = true ∧
    (run { bufferSize := 2 } [.write 7, .write 8]).1.tellg + (run { bufferSize := 2 } [.write 7, .write 8]).1.queue.length
      = (run { bufferSize := 2 } [.write 7, .write 8]).1.tellp := by
  decide

end Blf.Queue
